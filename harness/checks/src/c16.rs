//! C16 — compilation is deterministic: the same sources give byte-identical Lua, or the same list of
//! errors (locations, messages, order), independent of process, hash seeds, environment and of how many
//! compilations ran before. Oracle: an invariant over repetitions.
use arbitrary::Unstructured;
use serde::{Deserialize, Serialize};
use serde_json::json;
use std::path::{Path, PathBuf};
use std::sync::atomic::{AtomicU64, Ordering};
use std::sync::OnceLock;
use vcore::{compile, compile_fs, Check, ErrInfo, Found, Labels, Outcome, Project, RunCfg, Stats, Step, Tape, Tier, Verdict};

#[path = "c16_gen.rs"]
mod gen;

pub struct C16;
pub const CHECK: C16 = C16;
pub fn plan(t: Tier) -> vcore::Plan {
    vcore::Plan::new(t.pick(1_500, 60_000), 2000)
}

/// in-process repetitions when the first outcome is accepted Lua / a list of errors.
/// A dependence on hash order that picks one of k >= 2 equally likely results per compile goes unnoticed
/// with probability k^(1-N): N = 8 -> <= 0.79 % (k = 2), 0.05 % (k = 3); N = 24 -> <= 1.2e-7.
const N_ACCEPTED: usize = 8;
const N_REJECTED: usize = 24;
/// the repetition before which 20 unrelated projects are compiled
const REP_AFTER_UNRELATED: usize = 3;
/// the repetition that runs on a fresh thread (fresh `RandomState` key material from the OS)
const REP_FRESH_THREAD: usize = 5; // and 13, 21, ...
const XPROC_RUNS: usize = 3;
const DEFAULT_SYLT_BIN: &str = "/verif/harness/target/repo-bin/release/sylt";

#[derive(Clone, Serialize, Deserialize)]
pub struct Case {
    pub project: Project,
    /// construct class the generator aimed at
    pub class: String,
    /// independent errors planted by construction (0 = valid program or unknown)
    #[serde(default)]
    pub planted: u32,
    /// the known-finding avoidance switch was on when this case was generated (informational)
    #[serde(default)]
    pub avoid: bool,
}

static COUNTER: AtomicU64 = AtomicU64::new(0);

fn witnessed() -> &'static std::sync::Mutex<std::collections::HashMap<u64, Verdict>> {
    static W: OnceLock<std::sync::Mutex<std::collections::HashMap<u64, Verdict>>> = OnceLock::new();
    W.get_or_init(|| std::sync::Mutex::new(std::collections::HashMap::new()))
}

/// stored cases (replays, known-finding reproducers, regression seeds; the engine evaluates them through
/// `--eval-file`) are compiled 1024 times, so that an effect seen once in ~128 compiles (two 7-bit hash
/// tags colliding) reproduces with probability > 99.9 %
fn stored_case() -> bool {
    static B: OnceLock<bool> = OnceLock::new();
    *B.get_or_init(|| std::env::args().any(|a| a == "--eval-file"))
}
const N_STORED: usize = 1024;

// ------------------------------------------------------------------------------------------------
// the real driver binary (cross-process part)
// ------------------------------------------------------------------------------------------------

fn newest_source_mtime(root: &Path) -> Option<std::time::SystemTime> {
    fn walk(d: &Path, newest: &mut Option<std::time::SystemTime>, depth: usize) {
        if depth > 6 {
            return;
        }
        if let Ok(rd) = std::fs::read_dir(d) {
            for e in rd.flatten() {
                let p = e.path();
                let name = e.file_name().to_string_lossy().to_string();
                if p.is_dir() {
                    if name == "target" || name == "tests" || name.starts_with('.') || name == "docs" {
                        continue;
                    }
                    walk(&p, newest, depth + 1);
                } else if name.ends_with(".rs") || name.ends_with(".sy") || name.ends_with(".lua") || name == "Cargo.toml" || name == "Cargo.lock" {
                    if let Ok(m) = e.metadata().and_then(|m| m.modified()) {
                        if newest.map(|n| m > n).unwrap_or(true) {
                            *newest = Some(m);
                        }
                    }
                }
            }
        }
    }
    let mut newest = None;
    walk(root, &mut newest, 0);
    newest
}

/// Ok(path) when the driver binary exists and is not older than the sources of the tree under test
fn sylt_bin() -> &'static Result<PathBuf, String> {
    static B: OnceLock<Result<PathBuf, String>> = OnceLock::new();
    B.get_or_init(|| {
        let bin = PathBuf::from(std::env::var("SYLT_BIN").unwrap_or_else(|_| DEFAULT_SYLT_BIN.replace("/verif", &vcore::verif_root().to_string_lossy())));
        if !bin.is_file() {
            return Err(format!("driver binary {} is absent", bin.display()));
        }
        let repo = std::env::var("SYLT_REPO").unwrap_or_else(|_| "/repo".to_string());
        let bin_m = std::fs::metadata(&bin).and_then(|m| m.modified()).map_err(|e| e.to_string())?;
        let self_m = std::env::current_exe().and_then(std::fs::metadata).and_then(|m| m.modified()).ok();
        match newest_source_mtime(Path::new(&repo)) {
            Some(src_m) if src_m > bin_m => Err(format!("driver binary {} is older than the sources under {} (stale)", bin.display(), repo)),
            Some(src_m) if self_m.map(|m| src_m > m).unwrap_or(false) => Err(format!("this executable is older than the sources under {} (the library linked into it and the driver binary may differ)", repo)),
            _ => Ok(bin),
        }
    })
}

#[derive(PartialEq, Eq, Clone)]
struct ProcOut {
    code: Option<i32>,
    stdout: Vec<u8>,
    stderr: Vec<u8>,
    /// bytes of the `-o` file, None = not created
    file: Option<Vec<u8>>,
}

fn lossy(b: &[u8], max: usize) -> String {
    let s = String::from_utf8_lossy(b).to_string();
    if s.len() > max {
        let mut end = max;
        while !s.is_char_boundary(end) {
            end -= 1;
        }
        format!("{}…[+{} bytes]", &s[..end], s.len() - end)
    } else {
        s
    }
}

impl ProcOut {
    fn describe(&self) -> String {
        format!(
            "exit status {:?}, -o file {}, stdout:\n{}\nstderr:\n{}",
            self.code,
            match &self.file {
                Some(b) => format!("{} bytes (hash {:016x})", b.len(), vcore::hash64(&b[..])),
                None => "not created".to_string(),
            },
            lossy(&self.stdout, 1500),
            lossy(&self.stderr, 600)
        )
    }
}

/// run `sylt -o <out> <main>`; `variant` 0/1 = inherited environment, cwd = project directory;
/// 2 = scrubbed + unusual environment, other cwd, other HOME. Err = spawn failure / timeout.
fn run_driver(bin: &Path, dir: &Path, proj: &Project, variant: usize) -> Result<ProcOut, String> {
    use std::process::{Command, Stdio};
    // variants >= 3: an output path that cannot be written (its directory does not exist), the same path for all of them
    let out_file = if variant >= 3 { dir.join("xproc-missing-dir").join("out.lua") } else { dir.join(format!("xproc-{}.lua", variant)) };
    let so = dir.join(format!("xproc-{}.stdout", variant));
    let se = dir.join(format!("xproc-{}.stderr", variant));
    // what an earlier compilation left at the output path must not matter: variant 1 finds a longer stale file there,
    // variant 2 a symbolic link to such a file
    let stale: Vec<u8> = b"-- output of an earlier, longer compilation\nlocal x = 1\n".iter().cycle().take(120_000).copied().collect();
    let _ = std::fs::remove_file(&out_file);
    if variant == 1 {
        let _ = std::fs::write(&out_file, &stale);
    } else if variant == 2 {
        let target = dir.join("xproc-2-target.lua");
        let _ = std::fs::write(&target, &stale);
        let _ = std::os::unix::fs::symlink(&target, &out_file);
    }
    let mut cmd = Command::new(bin);
    cmd.arg("-o").arg(&out_file);
    if !proj.std {
        cmd.arg("--no-std");
    }
    if let Some(r) = &proj.require {
        cmd.arg("-r").arg(r);
    }
    cmd.arg(&proj.main);
    if variant == 2 {
        let alt = dir.join("elsewhere");
        let _ = std::fs::create_dir_all(&alt);
        cmd.env_clear()
            .env("PATH", "/usr/bin:/bin")
            .env("HOME", "/nonexistent-home")
            .env("LANG", "tr_TR.UTF-8")
            .env("LC_ALL", "C")
            .env("TZ", "Pacific/Kiritimati")
            .env("TERM", "dumb")
            .env("COLUMNS", "13")
            .env("LINES", "3")
            .env("TMPDIR", "/nonexistent-tmp")
            .env("USER", "somebody-else")
            .env("RUST_LOG", "trace")
            .env("SYLT_PATH", "/nowhere")
            .env("LUA_PATH", "/nowhere/?.lua")
            .env("VERIF_EXTRA_VARIABLE", "x".repeat(300))
            .current_dir(&alt);
    } else {
        cmd.current_dir(dir);
    }
    // colour control and backtraces are fixed: they are documented switches, not part of the claim
    cmd.env("NO_COLOR", "1").env("CLICOLOR", "0").env_remove("CLICOLOR_FORCE").env("RUST_BACKTRACE", "0");
    let fo = std::fs::File::create(&so).map_err(|e| e.to_string())?;
    let fe = std::fs::File::create(&se).map_err(|e| e.to_string())?;
    let mut child = cmd.stdin(Stdio::null()).stdout(Stdio::from(fo)).stderr(Stdio::from(fe)).spawn().map_err(|e| format!("spawn: {}", e))?;
    let t0 = std::time::Instant::now();
    let status = loop {
        match child.try_wait() {
            Ok(Some(st)) => break st,
            Ok(None) => {
                if t0.elapsed().as_secs() > 15 {
                    let _ = child.kill();
                    let _ = child.wait();
                    return Err("timeout".into());
                }
                std::thread::sleep(std::time::Duration::from_micros(300));
            }
            Err(e) => return Err(format!("wait: {}", e)),
        }
    };
    let r = ProcOut {
        code: status.code(),
        stdout: std::fs::read(&so).unwrap_or_default(),
        stderr: std::fs::read(&se).unwrap_or_default(),
        // a stale file that was left untouched (the driver writes nothing when compilation fails) counts as "no output"
        file: std::fs::read(&out_file).ok().filter(|b| *b != stale),
    };
    let _ = std::fs::remove_file(&out_file);
    let _ = std::fs::remove_file(dir.join("xproc-2-target.lua"));
    Ok(r)
}

// ------------------------------------------------------------------------------------------------
// comparison
// ------------------------------------------------------------------------------------------------

/// what the nearest preceding column-0 line of `file` above `line` declares
fn enclosing_decl(proj: &Project, file: &Option<String>, line: usize) -> &'static str {
    let src = match file.as_ref().and_then(|f| proj.files.get(f)) {
        Some(s) => s,
        None => return "no-source",
    };
    let lines: Vec<&str> = src.split('\n').collect();
    if line == 0 || line > lines.len() {
        return "no-line";
    }
    let mut i = line;
    while i >= 1 {
        let l = lines[i - 1];
        let first = l.chars().next();
        let top = matches!(first, Some(c) if !c.is_whitespace()) && !l.starts_with("//") && !l.starts_with("end") && !l.starts_with('}');
        if top {
            if l.contains(":: blob") || l.contains(":: externblob") {
                return "blob-fields";
            }
            if l.contains(":: enum") {
                return "enum-variants";
            }
            if l.starts_with("use ") || l.starts_with("from ") {
                return "import";
            }
            return "definition";
        }
        i -= 1;
    }
    "file-head"
}

fn phase_of(e: &ErrInfo) -> &'static str {
    match e.kind.as_str() {
        "Syntax" | "GitConflict" => "parser",
        "FileNotFound" | "IO" => "file-loading",
        "Compile" => "name-resolution",
        "Type" => "typechecker",
        _ => "other",
    }
}

fn same_but_rendering(a: &ErrInfo, b: &ErrInfo) -> bool {
    a.kind == b.kind && a.sub == b.sub && a.file == b.file && a.line == b.line && a.line_end == b.line_end && a.col_start == b.col_start && a.col_end == b.col_end && a.message == b.message
}

fn show_err(e: &ErrInfo) -> String {
    format!(
        "{}{} error at {}:{} (columns {}-{}): {}",
        e.kind,
        if e.sub.is_empty() { String::new() } else { format!("/{}", e.sub) },
        e.file.clone().unwrap_or_else(|| "<no file>".into()),
        e.line,
        e.col_start,
        e.col_end,
        vcore::first_line(&e.message)
    )
}

fn show_outcome(o: &Outcome) -> String {
    match o {
        Outcome::Accepted(b) => format!("accepted, {} bytes of Lua (hash {:016x})", b.len(), vcore::hash64(&b[..])),
        Outcome::Rejected { errors, .. } => {
            let mut s = format!("rejected with {} error(s):\n", errors.len());
            for (i, e) in errors.iter().enumerate().take(8) {
                s.push_str(&format!("  [{}] {}\n", i, show_err(e)));
            }
            if errors.len() > 8 {
                s.push_str(&format!("  … {} more\n", errors.len() - 8));
            }
            s
        }
        Outcome::Panicked { message, location, .. } => format!("PANIC at {}: {}", location, vcore::first_line(message)),
    }
}

fn sources(p: &Project) -> String {
    let mut s = String::new();
    for (n, src) in &p.files {
        s.push_str(&format!("--- {}{} ---\n{}\n", n, if *n == p.main { " (main)" } else { "" }, lossy(src.as_bytes(), 3000)));
    }
    s
}

/// (signature tail, explanation) when two outcomes of the same project differ
fn difference(orig: &Project, a: &Outcome, b: &Outcome, strip: &str) -> Option<(String, String)> {
    if a == b {
        return None;
    }
    let unroot = |f: &Option<String>| f.as_ref().map(|f| f.strip_prefix(strip).map(|r| r.to_string()).unwrap_or_else(|| f.clone()));
    match (a, b) {
        (Outcome::Accepted(x), Outcome::Accepted(y)) => {
            let mut lx: Vec<&[u8]> = x.split(|c| *c == b'\n').collect();
            let mut ly: Vec<&[u8]> = y.split(|c| *c == b'\n').collect();
            let first = lx.iter().zip(ly.iter()).position(|(p, q)| p != q).unwrap_or(lx.len().min(ly.len()));
            let detail = format!(
                "first differing Lua line {}:\n  one run : {}\n  another : {}",
                first + 1,
                lossy(lx.get(first).copied().unwrap_or(b"<end>"), 300),
                lossy(ly.get(first).copied().unwrap_or(b"<end>"), 300)
            );
            let l1 = String::from_utf8_lossy(lx.get(first).copied().unwrap_or(b"")).to_string();
            let l2 = String::from_utf8_lossy(ly.get(first).copied().unwrap_or(b"")).to_string();
            let both = |p: &str| l1.contains(p) && l2.contains(p);
            let site = if both("__BLOB{") {
                "blob-literal"
            } else if both("__VARIANT{") {
                "variant"
            } else if both("__LIST{") || both("__TUPLE{") {
                "collection"
            } else if both("local function") || l1.trim_start().starts_with("local function") != l2.trim_start().starts_with("local function") {
                "global-definition-order"
            } else if l1.trim_start().starts_with("local ") && l2.trim_start().starts_with("local ") {
                "local-definition"
            } else {
                "other"
            };
            lx.sort();
            ly.sort();
            let what = if lx == ly { "lua-lines-reordered" } else { "lua-content-differs" };
            Some((format!("output/{}/{}", what, site), detail))
        }
        (Outcome::Rejected { errors: x, .. }, Outcome::Rejected { errors: y, .. }) => {
            let idx = x.iter().zip(y.iter()).position(|(p, q)| p != q);
            let i = match idx {
                Some(i) => i,
                None if x.len() == y.len() => {
                    return Some(("outcome/bytes-written-differ".to_string(), "equal error lists, but a different number of bytes reached the output".to_string()));
                }
                None => {
                    return Some(("errors/count-differs".to_string(), format!("{} errors in one run, {} in another", x.len(), y.len())));
                }
            };
            let (ea, eb) = (&x[i], &y[i]);
            let phase = phase_of(ea);
            if same_but_rendering(ea, eb) {
                // only the rendered text differs (help lines, suggestions)
                let ra = ea.rendered.clone().unwrap_or_default();
                let rb = eb.rendered.clone().unwrap_or_default();
                let la: Vec<&str> = ra.lines().collect();
                let lb: Vec<&str> = rb.lines().collect();
                let k = la.iter().zip(lb.iter()).position(|(p, q)| p != q).unwrap_or(la.len().min(lb.len()));
                let l1 = la.get(k).copied().unwrap_or("<end>");
                let l2 = lb.get(k).copied().unwrap_or("<end>");
                let what = if l1.contains("Maybe you ment") || l2.contains("Maybe you ment") { "suggestion-differs" } else { "rendering-differs" };
                return Some((format!("errors/{}/{}", what, phase), format!("error [{}] {} renders differently:\n  one run : {}\n  another : {}", i, show_err(ea), l1, l2)));
            }
            let mut sx: Vec<String> = x.iter().map(|e| format!("{:?}", e)).collect();
            let mut sy: Vec<String> = y.iter().map(|e| format!("{:?}", e)).collect();
            sx.sort();
            sy.sort();
            let what = if sx == sy {
                "order-differs"
            } else if i == 0 {
                "first-error-differs"
            } else if x.len() != y.len() {
                "count-differs"
            } else {
                "later-error-differs"
            };
            let (da, db) = (enclosing_decl(orig, &unroot(&ea.file), ea.line), enclosing_decl(orig, &unroot(&eb.file), eb.line));
            let same_decl_start = |e: &ErrInfo| -> usize {
                // line of the enclosing column-0 line, to tell "inside one declaration" from "across declarations"
                let f = unroot(&e.file);
                let src = f.as_ref().and_then(|f| orig.files.get(f)).map(|s| s.as_str()).unwrap_or("");
                let lines: Vec<&str> = src.split('\n').collect();
                let mut i = e.line.min(lines.len());
                while i >= 1 {
                    let l = lines[i - 1];
                    if matches!(l.chars().next(), Some(c) if !c.is_whitespace()) && !l.starts_with("end") && !l.starts_with('}') && !l.starts_with("//") {
                        return i;
                    }
                    i -= 1;
                }
                0
            };
            let site = if ea.file != eb.file {
                "across-files".to_string()
            } else if phase_of(ea) != phase_of(eb) {
                "across-phases".to_string()
            } else if same_decl_start(ea) != same_decl_start(eb) {
                format!("{}/across-declarations", phase)
            } else if da == db {
                format!("{}/{}", phase, da)
            } else {
                format!("{}/mixed", phase)
            };
            Some((
                format!("errors/{}/{}", what, site),
                format!("error [{}] of the list differs between two compilations of the same sources:\n  one run : {}\n  another : {}", i, show_err(ea), show_err(eb)),
            ))
        }
        (Outcome::Panicked { .. }, Outcome::Panicked { .. }) => Some(("outcome/panic-differs".to_string(), "both runs panic, differently".to_string())),
        _ => {
            let k = |o: &Outcome| match o {
                Outcome::Accepted(_) => "accepted",
                Outcome::Rejected { .. } => "rejected",
                Outcome::Panicked { .. } => "panicked",
            };
            let (mut p, mut q) = (k(a), k(b));
            if p > q {
                std::mem::swap(&mut p, &mut q);
            }
            Some((format!("outcome/{}-vs-{}", p, q), "one compilation succeeds/fails where another does not".to_string()))
        }
    }
}

/// compares two outcomes of the same sources placed in different directories: Lua bytes, or the error
/// lists without the rendered text (source excerpts are only available for files on disk) and with the
/// directory prefix removed from file names and messages
fn relocated_difference(on_disk: &Outcome, in_memory: &Outcome, dir: &str) -> Option<(String, String)> {
    let norm = |e: &ErrInfo| {
        (e.kind.clone(), e.sub.clone(), e.file.as_ref().map(|f| f.replace(dir, "")), e.line, e.line_end, e.col_start, e.col_end, e.message.replace(dir, ""))
    };
    match (on_disk, in_memory) {
        (Outcome::Accepted(a), Outcome::Accepted(b)) => {
            if a == b {
                None
            } else {
                Some(("lua-differs".into(), "the emitted Lua depends on where the files are".into()))
            }
        }
        (Outcome::Rejected { errors: a, .. }, Outcome::Rejected { errors: b, .. }) => {
            let (na, nb): (Vec<_>, Vec<_>) = (a.iter().map(norm).collect(), b.iter().map(norm).collect());
            if na == nb {
                None
            } else {
                Some(("errors-differ".into(), "the error list depends on where the files are (beyond the file names themselves)".into()))
            }
        }
        (Outcome::Panicked { .. }, Outcome::Panicked { .. }) => None,
        _ => Some(("outcome-differs".into(), "acceptance depends on where the files are".into())),
    }
}

/// a blob/enum declaration of the project repeats a member name (token-level scan, used only to name the
/// root cause in the signature)
pub fn has_duplicate_member(p: &Project) -> bool {
    use sylt_tokenizer::Token as T;
    for src in p.files.values() {
        let toks: Vec<T> = match vcore::guarded(|| sylt_tokenizer::string_to_tokens(0, src)) {
            Ok(t) => t.into_iter().map(|p| p.token).collect(),
            Err(_) => continue,
        };
        let mut i = 0;
        while i + 2 < toks.len() {
            let is_decl = matches!(&toks[i], T::Identifier(_)) && toks[i + 1] == T::ColonColon;
            if is_decl && matches!(toks[i + 2], T::Blob | T::ExternBlob) {
                let mut j = i + 3;
                while j < toks.len() && toks[j] != T::LeftBrace && toks[j] != T::Newline {
                    j += 1;
                }
                if j < toks.len() && toks[j] == T::LeftBrace {
                    let mut depth = 0i32;
                    let mut names: Vec<&String> = Vec::new();
                    j += 1;
                    while j < toks.len() {
                        match &toks[j] {
                            T::LeftBrace | T::LeftParen | T::LeftBracket => depth += 1,
                            T::RightParen | T::RightBracket => depth -= 1,
                            T::RightBrace => {
                                if depth == 0 {
                                    break;
                                }
                                depth -= 1;
                            }
                            // the parser looks the name up as soon as it sees an identifier in member position
                            T::Identifier(n) if depth == 0 && matches!(toks[j - 1], T::LeftBrace | T::Comma | T::Newline) => {
                                if names.contains(&n) {
                                    return true;
                                }
                                names.push(n);
                            }
                            _ => {}
                        }
                        j += 1;
                    }
                }
                i = j;
            } else if is_decl && toks[i + 2] == T::Enum {
                let mut j = i + 3;
                let mut depth = 0i32;
                let mut names: Vec<&String> = Vec::new();
                let mut item_start = false;
                // optional `(*T, ..)` directly after `enum`
                if j < toks.len() && toks[j] == T::LeftParen {
                    while j < toks.len() && toks[j] != T::RightParen {
                        j += 1;
                    }
                    j += 1;
                }
                let mut first = true;
                while j < toks.len() {
                    match &toks[j] {
                        T::LeftParen | T::LeftBracket | T::LeftBrace => depth += 1,
                        T::RightParen | T::RightBracket | T::RightBrace => depth -= 1,
                        T::End if depth <= 0 => break,
                        T::Comma | T::Newline if depth == 0 => item_start = true,
                        T::Identifier(n) if depth == 0 && (item_start || first) => {
                            if names.contains(&n) {
                                return true;
                            }
                            names.push(n);
                            item_start = false;
                        }
                        _ => item_start = false,
                    }
                    first = false;
                    j += 1;
                }
                i = j;
            }
            i += 1;
        }
    }
    false
}

/// blobs/enums with >= 3 fields/variants in the user files (each is a hash-ordered collection in the AST)
fn wide_collections(p: &Project) -> usize {
    let files = &p.files;
    let reader = |path: &Path| -> Result<String, sylt_common::error::Error> {
        files.get(&path.to_string_lossy().to_string()).cloned().ok_or_else(|| sylt_common::error::Error::FileNotFound(path.to_path_buf()))
    };
    let main = PathBuf::from(&p.main);
    let tree = match vcore::guarded(|| sylt_parser::tree(&main, reader, false)) {
        Ok(Ok(t)) => t,
        _ => return 0,
    };
    let mut n = 0;
    for (_, m) in &tree.modules {
        for s in &m.statements {
            match &s.kind {
                sylt_parser::StatementKind::Blob { fields, .. } if fields.len() >= 3 => n += 1,
                sylt_parser::StatementKind::Enum { variants, .. } if variants.len() >= 3 => n += 1,
                _ => {}
            }
        }
    }
    n
}

impl C16 {
    fn violation(&self, case: &Case, tail: String, expl: String, how: &str, a: String, b: String) -> Verdict {
        // one root cause, many symptoms: a repeated member name in a blob/enum is detected by the parser only
        // when two hashes happen to collide; otherwise both members survive and one of them wins later
        let tail = if has_duplicate_member(&case.project) { "nondeterministic/duplicate-member-in-declaration".to_string() } else { tail };
        Verdict::Violation {
            signature: format!("C16/{}", tail),
            detail: format!(
                "{} ({}; generator class {}, {} planted independent error(s))\n{}\n=== one compilation ===\n{}\n=== another compilation of the same sources ===\n{}\n=== sources ===\n{}",
                expl,
                how,
                case.class,
                case.planted,
                "the same project was compiled repeatedly; all results must be identical",
                a,
                b,
                sources(&case.project)
            ),
        }
    }
}

impl Check for C16 {
    type Case = Case;
    fn id(&self) -> &'static str {
        "C16"
    }

    fn generate(&self, u: &mut Unstructured, _tier: Tier) -> Option<Case> {
        let mut t = Tape::new(u);
        // known-finding avoidance switch (at most one erroneous member type per blob/enum, no repeated member
        // names): off - the five findings it was made for are fixed (abb5103, ab2786e), so these shapes get full
        // weight. To exclude a new open finding by construction set this to `!t.chance(1, 5)` again.
        let avoid = false;
        let b = gen::build(&mut t, avoid);
        Some(Case { project: b.project, class: b.class.to_string(), planted: b.planted, avoid })
    }

    fn evaluate(&self, case: &Case, labels: &mut Labels) -> Verdict {
        labels.add(format!("class:{}", case.class));
        labels.add(if case.avoid { "switch:avoid-known-triggers" } else { "switch:free" });
        labels.add(format!("files:{}", case.project.files.len().min(4)));
        let n = COUNTER.fetch_add(1, Ordering::Relaxed);
        let dir = std::env::temp_dir().join(format!("verif-c16-{}-{}", std::process::id(), n));
        let proj = match case.project.materialize(&dir) {
            Ok(p) => p,
            Err(_) => {
                let _ = std::fs::remove_dir_all(&dir);
                return Verdict::Discard("materialize-failed".into());
            }
        };
        let v = self.evaluate_in(case, &proj, &dir, labels);
        let _ = std::fs::remove_dir_all(&dir);
        // A dependence on hash seeds shows with some probability per compile only. A violation that was
        // witnessed on exactly this input earlier in this process stays a violation when the engine
        // evaluates the input again (shrinking, final confirmation): it is an observed fact about the input.
        let key = vcore::hash64(&serde_json::to_string(case).unwrap_or_default());
        let mut memo = witnessed().lock().unwrap();
        match &v {
            // the first witnessed violation stays the verdict (a later evaluation may see another symptom first)
            Verdict::Violation { .. } => memo.entry(key).or_insert(v).clone(),
            Verdict::Pass { .. } => match memo.get(&key) {
                Some(w) => w.clone(),
                None => v,
            },
            _ => v,
        }
    }

    fn simplify_at(&self, case: &Case, idx: usize) -> Step<Case> {
        let mut k = idx;
        let names: Vec<String> = case.project.files.keys().cloned().collect();
        let others: Vec<&String> = names.iter().filter(|n| **n != case.project.main).collect();
        if k < others.len() {
            let mut c = case.clone();
            c.project.files.remove(others[k]);
            return Step::Candidate(c);
        }
        k -= others.len();
        for name in &names {
            let src = &case.project.files[name];
            let lines: Vec<&str> = src.split('\n').collect();
            let n = lines.len();
            // A: a line together with its more-indented block (and the closing `end` / `}`)
            if k < n {
                let i = k;
                if lines[i].trim().is_empty() {
                    return Step::Skip;
                }
                let ind = lines[i].chars().take_while(|c| *c == ' ').count();
                let mut j = i + 1;
                while j < n && (lines[j].trim().is_empty() || lines[j].chars().take_while(|c| *c == ' ').count() > ind) {
                    j += 1;
                }
                if j < n && j > i + 1 && (lines[j].trim_start().starts_with("end") || lines[j].trim_start().starts_with('}')) && lines[j].chars().take_while(|c| *c == ' ').count() == ind {
                    j += 1;
                }
                let mut out: Vec<&str> = lines[..i].to_vec();
                out.extend_from_slice(&lines[j..]);
                let mut c = case.clone();
                c.project.files.insert(name.clone(), out.join("\n"));
                return Step::Candidate(c);
            }
            k -= n;
            // B: a single line
            if k < n {
                if lines[k].trim().is_empty() {
                    return Step::Skip;
                }
                let mut out: Vec<&str> = lines.clone();
                out.remove(k);
                let mut c = case.clone();
                c.project.files.insert(name.clone(), out.join("\n"));
                return Step::Candidate(c);
            }
            k -= n;
            // C: one comma-separated member of a one-line `{ … }` / `enum … end` declaration (up to 8 per line)
            if k < n * 8 {
                let (li, item) = (k / 8, k % 8);
                let l = lines[li];
                let (open, close) = if let (Some(o), Some(c)) = (l.find('{'), l.rfind('}')) {
                    (o + 1, c)
                } else if let (Some(o), Some(c)) = (l.find(":: enum "), l.rfind(" end")) {
                    (o + 8, c)
                } else {
                    return Step::Skip;
                };
                if open >= close {
                    return Step::Skip;
                }
                let inner = &l[open..close];
                // split at top-level commas
                let mut parts: Vec<String> = Vec::new();
                let mut depth = 0i32;
                let mut cur = String::new();
                for ch in inner.chars() {
                    match ch {
                        '(' | '[' => depth += 1,
                        ')' | ']' => depth -= 1,
                        _ => {}
                    }
                    if ch == ',' && depth == 0 {
                        parts.push(std::mem::take(&mut cur));
                    } else {
                        cur.push(ch);
                    }
                }
                if !cur.trim().is_empty() {
                    parts.push(cur);
                }
                if item >= parts.len() || parts.len() < 2 {
                    return Step::Skip;
                }
                parts.remove(item);
                let rebuilt = format!("{} {} {}", l[..open].trim_end(), parts.iter().map(|p| p.trim()).collect::<Vec<_>>().join(", "), l[close..].trim_start());
                let mut out: Vec<String> = lines.iter().map(|x| x.to_string()).collect();
                out[li] = rebuilt;
                let mut c = case.clone();
                c.project.files.insert(name.clone(), out.join("\n"));
                return Step::Candidate(c);
            }
            k -= n * 8;
        }
        Step::End
    }

    fn sample(&self, case: &Case) -> serde_json::Value {
        vcore::truncate_value(json!({"class": case.class, "planted_errors": case.planted, "avoid_switch": case.avoid, "files": case.project.files}), 1500)
    }

    fn rule(&self) -> String {
        format!(
            "cases: 1-4 file projects from 15 construct classes ({}): valid programs (GenAST generator; blobs/enums with 3-8 \
             fields/variants incl. generics, literals in shuffled field order; 2-3 imported modules) and invalid programs with several \
             independent errors of one phase (blobs/enums whose member types are unresolvable / use undeclared generics / too many type \
             arguments; unresolved names with 3-8 candidates at equal edit distance; duplicate definitions; type errors in several \
             functions and chained globals; syntax errors in several lines/files; missing files; import errors; mutated corpus programs). \
             The avoidance switch for known findings (at most one erroneous member type per blob/enum, no repeated member name) \
             is off: no finding is open. Oracle: the project is materialised in a fresh directory and compiled {} times \
             in-process when it is accepted, {} times when it is rejected (stored cases - replays, known-finding reproducers, \
             regression seeds - {} times); every HashMap of the compiler gets a new RandomState per compile; repetition {} runs after \
             {} unrelated compilations that use the same in-memory file names, every 8th repetition on a fresh thread. All outcomes \
             must be equal: identical Lua bytes, or identical error lists (kind, variant, file, line, columns, message, rendered text, \
             order). The same project served from memory is compiled before and after the unrelated compilations (must be equal) and \
             must equal the on-disk result up to the directory prefix. Detection: a dependence that picks one of k>=2 equally likely \
             results per compile is missed with probability k^(1-N): <= 0.79 % for accepted programs (N=8, k=2; 0.05 % for k=3), \
             <= 1.2e-7 for rejected ones (N=24), i.e. > 99 % per case for every class; an effect that shows once in 128 compiles is \
             seen with 17 % per rejected case during the search and > 99.9 % on a stored case. Cross-process (when the driver binary \
             of the tree is present and neither it nor this executable is older than the sources): {} runs of `sylt -o FILE main.sy` \
             in fresh processes - the first onto a new file, the second onto a longer stale output file left by an earlier compilation, the last onto a symbolic link to such a file and with a scrubbed, unusual environment (HOME, LANG, LC_ALL, TZ, TERM, COLUMNS, TMPDIR, USER, \
             extra variables) and another working directory: exit status, stdout, stderr and output-file bytes must be identical, \
             and equal to the in-process result (Lua bytes / rendered errors). NO_COLOR and RUST_BACKTRACE are fixed. non-trivial = \
             >= 2 independent errors (planted or reported) or >= 2 blobs/enums with >= 3 members in the user files; distinct by hash \
             of the project",
            gen::CLASSES.join(", "),
            N_ACCEPTED,
            N_REJECTED,
            N_STORED,
            REP_AFTER_UNRELATED,
            gen::unrelated().len(),
            XPROC_RUNS
        )
    }

    fn assumptions(&self) -> Vec<String> {
        vec![
            "colour control (NO_COLOR/CLICOLOR) and RUST_BACKTRACE are documented switches and are held fixed; nothing else in the environment is held fixed".into(),
            "a project whose every compilation panics identically is discarded here (totality is C07's property)".into(),
            "the cross-process part runs only when target/repo-bin/release/sylt exists and neither it nor svcheck is older than the sources of the tree (otherwise coverage.cross_process = false and coverage.cross_process_skipped_because says why)".into(),
            "a violation witnessed on an input stays the verdict for that input within the process (re-evaluations during shrinking can miss a probabilistic effect; the witnessed pair of differing outcomes is kept in the detail)".into(),
            "signatures name the root cause by where the first differing error sits (phase / kind of enclosing declaration, found by a textual scan) or which Lua construct differs; a project that repeats a member name inside a blob/enum is attributed to the duplicate-member finding".into(),
        ]
    }

    fn health(&self, s: &Stats) -> Result<(), String> {
        let n = s.evaluations.max(1);
        for c in gen::CLASSES {
            let k = s.label(&format!("class:{}", c));
            if k * 100 < n {
                return Err(format!("construct class {} appears in only {} of {} cases", c, k, n));
            }
        }
        if s.label("multi-error") * 100 < 30 * n {
            return Err(format!("only {} of {} cases have >= 2 independent errors", s.label("multi-error"), n));
        }
        if s.label("outcome:accepted") * 100 < 10 * n {
            return Err(format!("only {} of {} cases are accepted programs", s.label("outcome:accepted"), n));
        }
        for c in ["valid-generated", "valid-wide-decls", "valid-multi-file"] {
            let (ok, all) = (s.label(&format!("accepted:{}", c)), s.label(&format!("class:{}", c)));
            if ok * 100 < 60 * all {
                return Err(format!("only {} of {} {} programs compile (generator defect)", ok, all, c));
            }
        }
        let disc: u64 = s.discards.values().sum();
        if disc * 100 > 10 * n {
            return Err(format!("{} of {} cases discarded: {:?}", disc, n, s.discards));
        }
        // (the tree may change while the run is in progress: children that start later then find the binary stale)
        if sylt_bin().is_ok() && s.label("xproc:unavailable") == 0 && s.label("xproc:compared") * 100 < 85 * s.passed {
            return Err(format!("cross-process comparison ran on only {} of {} passing cases", s.label("xproc:compared"), s.passed));
        }
        Ok(())
    }

    fn extra_phase(&self, _cfg: &RunCfg, stats: &mut Stats) -> Vec<Found> {
        let compared = stats.label("xproc:compared");
        stats.extra.insert("cross_process".into(), json!(compared > 0 && compared * 100 >= 85 * stats.passed));
        stats.extra.insert("cross_process_cases".into(), json!(compared));
        match sylt_bin() {
            Ok(p) => {
                stats.extra.insert("cross_process_binary".into(), json!(p.to_string_lossy()));
                if stats.label("xproc:unavailable") > 0 {
                    stats.extra.insert("cross_process_skipped_because".into(), json!("the sources of the tree changed while the run was in progress; later child processes found the driver binary stale"));
                }
            }
            Err(why) => {
                stats.extra.insert("cross_process_skipped_because".into(), json!(why));
            }
        }
        stats.extra.insert("repetitions".into(), json!({"in_process_accepted": N_ACCEPTED, "in_process_rejected": N_REJECTED, "fresh_processes": XPROC_RUNS, "unrelated_compiles_before_repetition": REP_AFTER_UNRELATED, "unrelated_compiles": gen::unrelated().len()}));
        Vec::new()
    }
}

impl C16 {
    fn evaluate_in(&self, case: &Case, proj: &Project, dir: &Path, labels: &mut Labels) -> Verdict {
        let strip = dir.to_string_lossy().to_string();
        let first = compile_fs(proj);
        let reps = match &first {
            Outcome::Panicked { .. } => 4,
            _ if stored_case() => N_STORED,
            Outcome::Accepted(_) => N_ACCEPTED,
            Outcome::Rejected { .. } => N_REJECTED,
        };
        // the same project served from memory under the paths the unrelated projects use too
        // (/p/main.sy, /p/other.sy, ...): state that leaks from one compilation into the next, keyed by
        // path or not, shows as a difference between the compilation before and the one after them
        let mem_before = compile(&case.project);
        for i in 1..reps {
            if i % 32 == REP_AFTER_UNRELATED {
                for u in gen::unrelated() {
                    let _ = compile(u);
                }
                let mem_after = compile(&case.project);
                if let Some((tail, expl)) = difference(&case.project, &mem_before, &mem_after, "") {
                    let how = format!("in-memory compilation before vs after {} unrelated compilations that use the same file names", gen::unrelated().len());
                    return self.violation(case, tail, expl, &how, show_outcome(&mem_before), show_outcome(&mem_after));
                }
            }
            let o = if i % 8 == REP_FRESH_THREAD { vcore::on_big_stack_scoped(256, || compile_fs(proj)) } else { compile_fs(proj) };
            if let Some((tail, expl)) = difference(&case.project, &first, &o, &strip) {
                let how = format!("in-process repetition 0 vs {}", i);
                return self.violation(case, tail, expl, &how, show_outcome(&first), show_outcome(&o));
            }
        }
        // all repetitions agree. The in-memory compilation must agree with the compilation of the materialised files, up to the directory prefix
        // (the materialised copy lives in a directory no earlier compilation has seen)
        if let Some((what, expl)) = relocated_difference(&first, &mem_before, &strip) {
            // persistent (a function of the location / of earlier compilations) or a rare effect of the hash seeds?
            let mut persistent = true;
            for _ in 0..3 {
                let (m2, f2) = (compile(&case.project), compile_fs(proj));
                if let Some((tail, expl)) = difference(&case.project, &mem_before, &m2, "") {
                    return self.violation(case, tail, expl, "two in-memory compilations", show_outcome(&mem_before), show_outcome(&m2));
                }
                if let Some((tail, expl)) = difference(&case.project, &first, &f2, &strip) {
                    return self.violation(case, tail, expl, "two compilations of the materialised files", show_outcome(&first), show_outcome(&f2));
                }
                if relocated_difference(&f2, &m2, &strip).is_none() {
                    persistent = false;
                }
            }
            let tail = if persistent { format!("earlier-compilations-or-location/{}", what) } else { "nondeterministic/rare-difference".to_string() };
            return self.violation(
                case,
                tail,
                expl,
                "files on disk in a fresh directory vs the same files served from memory as /p/*.sy",
                show_outcome(&first),
                show_outcome(&mem_before),
            );
        }
        match &first {
            Outcome::Panicked { .. } => return Verdict::Discard("panics-identically".into()),
            Outcome::Accepted(_) => {
                labels.add("outcome:accepted");
                labels.add(format!("accepted:{}", case.class));
                // developer aid: C16_DUMP_ACCEPTED=<class> prints accepted programs of a class
                if std::env::var("C16_DUMP_ACCEPTED").map(|c| c == case.class).unwrap_or(false) {
                    eprintln!("C16_DUMP_ACCEPTED planted={}\n{}", case.planted, sources(&case.project));
                }
            }
            Outcome::Rejected { errors, .. } => {
                labels.add("outcome:rejected");
                labels.add(format!("errors-reported:{}", errors.len().min(5)));
                if let Some(e) = errors.first() {
                    labels.add(format!("first-error:{}", phase_of(e)));
                }
            }
        }

        // fresh processes
        if sylt_bin().is_err() {
            labels.add("xproc:unavailable");
        }
        if let Ok(bin) = sylt_bin() {
            let mut runs: Vec<ProcOut> = Vec::new();
            for v in 0..XPROC_RUNS {
                match run_driver(bin, dir, proj, v) {
                    Ok(r) => runs.push(r),
                    Err(e) => return Verdict::Discard(format!("xproc-{}", if e == "timeout" { "timeout" } else { "spawn-failed" })),
                }
            }
            for v in 1..runs.len() {
                // a panicking driver prints its thread id to stderr; that is not part of the claim
                let same = if runs[v].code == Some(101) && runs[0].code == Some(101) {
                    runs[v].stdout == runs[0].stdout && runs[v].file == runs[0].file
                } else {
                    runs[v] == runs[0]
                };
                if !same {
                    let what = if runs[v].file != runs[0].file {
                        "output-file"
                    } else if runs[v].stdout != runs[0].stdout {
                        "stdout"
                    } else if runs[v].code != runs[0].code {
                        "exit-status"
                    } else {
                        "stderr"
                    };
                    let env = if v == 2 { "changed-environment" } else { "same-environment" };
                    let how = format!("fresh process 0 vs fresh process {} ({})", v, env);
                    return self.violation(case, format!("process/{}-differs/{}", what, env), format!("two runs of the driver binary differ in {}", what), &how, runs[0].describe(), runs[v].describe());
                }
            }
            // a failing write is part of the claim as well: two processes that cannot write the output file say the same
            if matches!(&first, Outcome::Accepted(_)) {
                let a = run_driver(bin, dir, proj, 3);
                let b = run_driver(bin, dir, proj, 4);
                if let (Ok(a), Ok(b)) = (a, b) {
                    labels.add("xproc:unwritable-output-compared");
                    if a != b && !(a.code == Some(101) && b.code == Some(101)) {
                        let what = if a.stdout != b.stdout { "stdout" } else if a.code != b.code { "exit-status" } else if a.file != b.file { "output-file" } else { "stderr" };
                        return self.violation(
                            case,
                            format!("process/{}-differs/unwritable-output", what),
                            format!("two runs of the driver binary that cannot write their output file differ in {}", what),
                            "fresh process vs fresh process, `-o <missing directory>/out.lua`",
                            a.describe(),
                            b.describe(),
                        );
                    }
                }
            }
            // the processes agree with each other; they must also agree with the library result
            let r = &runs[0];
            let expected = match &first {
                Outcome::Accepted(b) => ProcOut { code: Some(0), stdout: Vec::new(), stderr: Vec::new(), file: Some(b.clone()) },
                Outcome::Rejected { errors, .. } => {
                    let mut so = Vec::new();
                    for e in errors {
                        so.extend_from_slice(e.rendered.clone().unwrap_or_default().as_bytes());
                        so.push(b'\n');
                    }
                    ProcOut { code: Some(1), stdout: so, stderr: r.stderr.clone(), file: None }
                }
                Outcome::Panicked { .. } => unreachable!(),
            };
            let rendered_ok = match &first {
                Outcome::Rejected { errors, .. } => errors.iter().all(|e| e.rendered.is_some()),
                _ => true,
            };
            if rendered_ok && (r.code != expected.code || r.stdout != expected.stdout || r.file != expected.file) {
                let what = if r.file != expected.file {
                    "output-file"
                } else if r.stdout != expected.stdout {
                    "stdout"
                } else {
                    "exit-status"
                };
                return self.violation(
                    case,
                    format!("process/{}-differs/library-vs-driver", what),
                    format!("the driver binary's {} differs from what the in-process compilation of the same files produced", what),
                    "in-process vs fresh process",
                    format!("{}\nexpected from it: {}", show_outcome(&first), expected.describe()),
                    r.describe(),
                );
            }
            labels.add("xproc:compared");
        }

        let reported = first.errors().len();
        let wide = wide_collections(&case.project);
        let multi = case.planted >= 2 || reported >= 2;
        if multi {
            labels.add("multi-error");
        }
        if wide >= 2 {
            labels.add("wide-collections>=2");
        }
        Verdict::Pass { nontrivial: multi || wide >= 2 }
    }
}
