//! C09 — names resolve lexically; consistent renaming changes nothing.
//! Metamorphic (two consistent renamings of one GenAST => identical Lua) + planted out-of-scope uses.
use crate::common::*;
use arbitrary::Unstructured;
use serde::{Deserialize, Serialize};
use syltmodel::ast::*;
use syltmodel::gen::{Gen, GenCfg};
use syltmodel::plant;
use syltmodel::print::Plan as SurfacePlan;
use syltmodel::scope;
use vcore::{compile, Check, Labels, Outcome, Plan, Project, Stats, Step, Tape, Tier, Verdict};

pub struct C09;
pub const CHECK: C09 = C09;
pub fn plan(t: Tier) -> Plan {
    Plan::new(t.pick(16_000, 200_000), t.pick(3400, 4600))
}

#[derive(Clone, Serialize, Deserialize)]
pub enum Kind {
    /// rename binders: `names` is the shadowing plan (index = VarId; empty = keep)
    Rename { names: Vec<String> },
    /// an out-of-scope use planted at statement site `site`: the name of variable `var` is used there
    OutOfScope { site: usize, var: VarId, where_: String },
}

#[derive(Clone, Serialize, Deserialize)]
pub struct Case {
    pub prog: Program,
    pub kind: Kind,
    #[serde(default)]
    pub source: String,
    /// both renderings annotate every variable definition (also function-typed ones: `h: fn int -> int : g`)
    #[serde(default)]
    pub annot_defs: bool,
}

fn binders_cfg(thorough: bool) -> GenCfg {
    let mut cfg = GenCfg::core(thorough);
    cfg.block_depth = 4;
    cfg.scenario_weight = 3;
    cfg
}

use syltmodel::scope::shadow_plan;

impl Check for C09 {
    type Case = Case;
    fn id(&self) -> &'static str {
        "C09"
    }
    fn generate(&self, u: &mut Unstructured, tier: Tier) -> Option<Case> {
        let mut t = Tape::new(u);
        let prog = Gen::new(&mut t, binders_cfg(tier == Tier::Thorough)).program();
        if t.chance(3, 4) {
            let (names, _) = shadow_plan(&mut t, &prog);
            let annot_defs = t.bool();
            let mut plan = SurfacePlan::default();
            plan.names = Some(names.clone());
            plan.annot_default.0 = annot_defs;
            let source = render(&prog, &plan).text;
            Some(Case { prog, kind: Kind::Rename { names }, source, annot_defs })
        } else {
            // an out-of-scope use: a local of the same global function that is not visible at the site
            let (stmts, _) = plant::sites(&prog);
            if stmts.is_empty() {
                return None;
            }
            for _ in 0..8 {
                let si = t.below(stmts.len());
                let site = &stmts[si];
                // candidates: locals / params / case bindings declared inside the same global definition
                let mut inside: Vec<VarId> = Vec::new();
                if let Some(g) = prog.globals.iter().find(|g| g.var == site.ctx.global) {
                    collect_binders(&g.value, &mut inside);
                }
                let cands: Vec<VarId> = inside
                    .into_iter()
                    .filter(|v| !site.ctx.scope.contains(v) && prog.var(*v).kind != VarKind::SelfVar)
                    .collect();
                if cands.is_empty() {
                    continue;
                }
                let var = *t.pick(&cands);
                let where_ = format!("{:?}", site.ctx.placement);
                let q = plant::insert_stmt(&prog, si, Stmt::Raw(format!("zzq9 :: {}", prog.var(var).name)));
                let source = render(&q, &SurfacePlan::default()).text;
                return Some(Case { prog, kind: Kind::OutOfScope { site: si, var, where_ }, source, annot_defs: false });
            }
            None
        }
    }

    fn evaluate(&self, case: &Case, labels: &mut Labels) -> Verdict {
        let mut a = SurfacePlan::default();
        a.annot_default.0 = case.annot_defs;
        let pa = render(&case.prog, &a);
        let oa = compile(&Project::single(pa.text.clone()));
        let la = match &oa {
            Outcome::Accepted(b) => b,
            Outcome::Rejected { errors, .. } => {
                labels.add(format!("base-rejected:{}:{}", errors[0].kind, errors[0].sub));
                return Verdict::Discard("base-rejected".into());
            }
            Outcome::Panicked { .. } => return Verdict::Discard("compiler-panicked".into()),
        };
        labels.add("accepted");
        match &case.kind {
            Kind::Rename { names } => {
                let rep = scope::check(&case.prog, names);
                if !rep.ok {
                    return Verdict::Discard("renaming-not-consistent".into());
                }
                let mut b = SurfacePlan::default();
                b.names = Some(names.clone());
                b.annot_default.0 = case.annot_defs;
                let pb = render(&case.prog, &b);
                let renamed = names.iter().zip(case.prog.vars.iter()).filter(|(n, v)| **n != v.name).count();
                if rep.shadowed_refs > 0 {
                    labels.add("shadowing");
                }
                let ob = compile(&Project::single(pb.text.clone()));
                let lb = match &ob {
                    Outcome::Accepted(b) => b,
                    Outcome::Rejected { errors, .. } => {
                        return Verdict::Violation {
                            signature: format!("C09/renamed-rejected/{}:{}", errors[0].kind, message_class(&errors[0].message)),
                            detail: format!(
                                "consistent renaming (to names that shadow outer/earlier binders) makes the program unacceptable: {}\n--- distinct names ---\n{}\n--- renamed ---\n{}",
                                ob.short(),
                                pa.text,
                                pb.text
                            ),
                        };
                    }
                    Outcome::Panicked { .. } => return Verdict::Discard("compiler-panicked".into()),
                };
                if la != lb {
                    let sa = String::from_utf8_lossy(la).to_string();
                    let sb = String::from_utf8_lossy(lb).to_string();
                    let xa: Vec<&str> = sa.lines().collect();
                    let xb: Vec<&str> = sb.lines().collect();
                    let mut first = 0;
                    while first < xa.len().min(xb.len()) && xa[first] == xb[first] {
                        first += 1;
                    }
                    return Verdict::Violation {
                        signature: "C09/bytes-differ".into(),
                        detail: format!(
                            "a consistent renaming changes the emitted Lua (chunk line {}: {:?} vs {:?}): some identifier does not resolve to its innermost enclosing declaration\n--- distinct names ---\n{}\n--- renamed ---\n{}",
                            first + 1,
                            xa.get(first),
                            xb.get(first),
                            pa.text,
                            pb.text
                        ),
                    };
                }
                Verdict::Pass { nontrivial: renamed >= 2 && rep.shadowed_refs >= 2 }
            }
            Kind::OutOfScope { site, var, where_ } => {
                labels.add(format!("out-of-scope:{}", where_));
                let name = case.prog.var(*var).name.clone();
                let q = plant::insert_stmt(&case.prog, *site, Stmt::Raw(format!("zzq9 :: {}", name)));
                let pq = render(&q, &a);
                let oq = compile(&Project::single(pq.text.clone()));
                match &oq {
                    Outcome::Rejected { errors, bytes_written } => {
                        if *bytes_written > 0 {
                            return Verdict::Violation { signature: "C09/wrote-lua-on-error".into(), detail: oq.short() };
                        }
                        labels.add(format!("rejected-as-expected:{}", errors[0].kind));
                        Verdict::Pass { nontrivial: true }
                    }
                    Outcome::Accepted(_) => Verdict::Violation {
                        signature: format!("C09/out-of-scope-use-accepted/{}", where_),
                        detail: format!(
                            "`{}` is used at a place where no declaration of that name is in scope (its declaration lies in a scope that has ended, or comes later), yet the program is accepted\n--- source (the planted line is `zzq9 :: {}`) ---\n{}",
                            name, name, pq.text
                        ),
                    },
                    Outcome::Panicked { .. } => Verdict::Discard("compiler-panicked".into()),
                }
            }
        }
    }

    fn simplify_at(&self, case: &Case, idx: usize) -> Step<Case> {
        match &case.kind {
            Kind::Rename { names } => {
                let pc = ProgCase { prog: case.prog.clone(), plan: SurfacePlan::default(), source: String::new() };
                match shrink_step(&pc, idx) {
                    Step::End => Step::End,
                    Step::Skip => Step::Skip,
                    Step::Candidate(p) => {
                        if !scope::check(&p.prog, names).ok {
                            return Step::Skip;
                        }
                        let mut b = SurfacePlan::default();
                        b.names = Some(names.clone());
                        b.annot_default.0 = case.annot_defs;
                        let source = render(&p.prog, &b).text;
                        Step::Candidate(Case { prog: p.prog, kind: case.kind.clone(), source, annot_defs: case.annot_defs })
                    }
                }
            }
            // site indices shift when the program changes: not shrunk structurally
            Kind::OutOfScope { .. } => Step::End,
        }
    }
    fn sample(&self, case: &Case) -> serde_json::Value {
        vcore::truncate_value(serde_json::json!({ "kind": match &case.kind { Kind::Rename{..} => "rename", Kind::OutOfScope{..} => "out-of-scope" }, "source": case.source }), 2000)
    }
    fn rule(&self) -> String {
        "cases (3/4): a random well-typed GenAST program with all binders distinct (plan A) and a greedy maximal-shadowing renaming \
         (plan B: a binder takes the name of another binder or a short common name whenever an independent model of lexical resolution \
         - innermost enclosing declaration visible at that point, function definitions visible in their own body, other locals after \
         their definition, block/branch/arm/loop-body scopes, parameters, case bindings, then globals - still resolves every reference \
         to its intended binder; `self`, fields, variants, types, std names are never renamed); oracle: A and B emit byte-identical Lua. \
         cases (1/4): a use of a local/parameter/case binding of the same top-level function planted at a statement position where that \
         binder is not in scope (its block, branch, arm, loop body or function has ended, or it is declared later); oracle: rejected, \
         zero bytes written. non-trivial = >= 2 binders renamed and >= 2 references that pass a hidden same-named binder, or any negative \
         case; distinct by case hash"
            .into()
    }
    fn health(&self, s: &Stats) -> Result<(), String> {
        if s.evaluations < 200 {
            return Ok(());
        }
        if (s.label("accepted") as f64) < 0.5 * s.evaluations as f64 {
            return Err("fewer than half of the base programs compile".into());
        }
        if s.label("shadowing") * 3 < s.evaluations {
            return Err(format!("shadowing renamings are rare: {} of {}", s.label("shadowing"), s.evaluations));
        }
        Ok(())
    }
}

pub fn collect_binders(x: &Expr, out: &mut Vec<VarId>) {
    fn blk(b: &Block, out: &mut Vec<VarId>) {
        for s in &b.stmts {
            match s {
                Stmt::Def { var, .. } => out.push(*var),
                Stmt::Loop { body, .. } => blk(body, out),
                Stmt::Block(b) => blk(b, out),
                _ => {}
            }
        }
    }
    syltmodel::walk::walk_expr(x, &mut |e| match &e.kind {
        EKind::Lambda(d) => {
            out.extend(d.params.iter().copied());
            blk(&d.body, out);
        }
        EKind::If(bs, d) => {
            for (_, b) in bs {
                blk(b, out);
            }
            if let Some(d) = d {
                blk(d, out);
            }
        }
        EKind::Case { arms, default, .. } => {
            for a in arms {
                if let Some(b) = a.bind {
                    out.push(b);
                }
                blk(&a.body, out);
            }
            if let Some(d) = default {
                blk(d, out);
            }
        }
        _ => {}
    });
}
