//! C14 — call/return sugar and layout never change meaning (metamorphic: two surface plans, one GenAST).
use crate::common::*;
use arbitrary::Unstructured;
use serde::{Deserialize, Serialize};
use syltmodel::ast::*;
use syltmodel::gen::{Gen, GenCfg};
use syltmodel::print::{Choices, Plan as SurfacePlan};
use vcore::{compile, Check, Labels, Outcome, Plan, Project, Stats, Step, Tape, Tier, Verdict};

pub struct C14;
pub const CHECK: C14 = C14;
pub fn plan(t: Tier) -> Plan {
    Plan::new(t.pick(16_000, 200_000), t.pick(3200, 4500))
}

#[derive(Clone, Serialize, Deserialize)]
pub struct Case {
    pub prog: syltmodel::ast::Program,
    pub a: SurfacePlan,
    pub b: SurfacePlan,
    #[serde(default)]
    pub source_a: String,
    #[serde(default)]
    pub source_b: String,
}

fn choices(t: &mut Tape, n: usize, density: u32) -> Choices {
    let mut v = Vec::with_capacity(n);
    for _ in 0..n {
        v.push(if t.chance(density, 8) { t.byte() } else { 0 });
    }
    Choices(v)
}

pub fn random_surface(t: &mut Tape, avoid_paren_do: bool) -> SurfacePlan {
    let mut p = SurfacePlan::default();
    p.callform = choices(t, 160, 4);
    p.retform = choices(t, 60, 4);
    p.loopform = choices(t, 20, 4);
    // redundant parentheses around an if-expression whose branch starts with a do-block is a known finding
    p.parens = if avoid_paren_do { choices(t, 200, 2) } else { choices(t, 200, 3) };
    p.comments = choices(t, 120, 2);
    p.blanks = choices(t, 120, 2);
    p.breaks = choices(t, 240, 3);
    p.indent = t.below(10) as u8;
    p.crlf = t.chance(1, 8);
    p
}

fn normalise(lua: &[u8]) -> Vec<u8> {
    // the line number inside `<!>` messages may differ
    let s = String::from_utf8_lossy(lua);
    let mut out = String::with_capacity(s.len());
    let pat = "Reached unreachable code on line ";
    let mut rest: &str = &s;
    while let Some(i) = rest.find(pat) {
        out.push_str(&rest[..i + pat.len()]);
        rest = &rest[i + pat.len()..];
        let digits = rest.chars().take_while(|c| c.is_ascii_digit()).count();
        out.push('N');
        rest = &rest[digits..];
    }
    out.push_str(rest);
    out.into_bytes()
}

impl Check for C14 {
    type Case = Case;
    fn id(&self) -> &'static str {
        "C14"
    }
    fn generate(&self, u: &mut Unstructured, tier: Tier) -> Option<Case> {
        let mut t = Tape::new(u);
        let mut cfg = GenCfg::core(tier == Tier::Thorough);
        // known finding (do-block as first statement of a branch, inside brackets): avoided for 80 % of the budget
        let raw = t.chance(1, 5);
        cfg.avoid_leading_do_block = !raw;
        let mut prog = Gen::new(&mut t, cfg).program();
        // 1 program in 8 is made ill-typed at a returned value (a trailing expression or the value of a `ret`): the two
        // spellings of "return this" must agree on acceptance for programs that are wrong as well
        if t.chance(1, 8) {
            let (_, sites) = syltmodel::plant::sites(&prog);
            let cands: Vec<usize> = (0..sites.len())
                .filter(|i| matches!(sites[*i].ctx.placement, syltmodel::plant::Placement::ReturnValue) && sites[*i].ctx.ret != Ty::Void && sites[*i].ty != Ty::Void)
                .collect();
            if !cands.is_empty() {
                let si = *t.pick(&cands);
                let ty = sites[si].ty.clone();
                let wrong = if ty == Ty::Str { int(7) } else { string("zq") };
                prog = syltmodel::plant::replace_expr(&prog, si, Expr { ty, kind: wrong.kind });
            }
        }
        let mut a = SurfacePlan::default();
        let mut b = random_surface(&mut t, !raw);
        // a third of the programs are written in a random top-level order - the same one in both renderings, so that the
        // two differ in sugar and layout only (the two spellings of a construct must agree wherever the construct stands)
        if t.chance(1, 3) {
            let n = prog.blobs.len() + prog.enums.len() + prog.globals.len();
            let mut v: Vec<usize> = (0..n).collect();
            for i in (1..n).rev() {
                let j = t.below(i + 1);
                v.swap(i, j);
            }
            a.order = Some(v.clone());
            b.order = Some(v);
        }
        let source_a = render(&prog, &a).text;
        let source_b = render(&prog, &b).text;
        Some(Case { prog, a, b, source_a, source_b })
    }

    fn evaluate(&self, case: &Case, labels: &mut Labels) -> Verdict {
        let pa = render(&case.prog, &case.a);
        let pb = render(&case.prog, &case.b);
        let oa = compile(&Project::single(pa.text.clone()));
        let la = match &oa {
            Outcome::Accepted(b) => b,
            Outcome::Rejected { errors, .. } => {
                labels.add(format!("base-rejected:{}:{}", errors[0].kind, errors[0].sub));
                // rejected in the default rendering: the other rendering (same program, other sugar / layout) must be too
                if let Outcome::Accepted(_) = compile(&Project::single(pb.text.clone())) {
                    return Verdict::Violation {
                        signature: format!("C14/acceptance-of-rejected/{}:{}", errors[0].kind, message_class(&errors[0].message).trim()),
                        detail: format!(
                            "the default rendering is rejected ({}), the re-rendering (same program, other sugar/layout) is accepted\n--- default ---\n{}\n--- variant ---\n{}",
                            oa.short(),
                            pa.text,
                            pb.text
                        ),
                    };
                }
                return Verdict::Discard("base-rejected".into());
            }
            Outcome::Panicked { .. } => return Verdict::Discard("compiler-panicked".into()),
        };
        labels.add("accepted");
        let s = &pb.sites;
        if s.call_prime > 0 {
            labels.add("prime-call");
        }
        if s.arrow_complex_callee > 0 {
            labels.add("sugar:arrow-call-with-complex-callee");
        }
        if s.call_arrow > 0 {
            labels.add("arrow-call");
        }
        if s.nested_sugar > 0 {
            labels.add("nested-sugar");
        }
        if s.ret > s.ret_trailing {
            labels.add("ret-form");
        }
        if s.parens_added > 0 {
            labels.add("redundant-parens");
            if s.atom_parens > 0 {
                labels.add("redundant-parens-around-atom");
            }
        }
        if s.comments_added > 0 {
            labels.add("comments");
        }
        if s.breaks_added > 0 {
            labels.add("line-breaks-in-brackets");
            if s.op_breaks > 0 {
                labels.add("line-break-before-operator-in-brackets");
            }
        }
        if case.b.crlf {
            labels.add("crlf");
        }
        let ob = compile(&Project::single(pb.text.clone()));
        let lb = match &ob {
            Outcome::Accepted(b) => b,
            Outcome::Rejected { errors, .. } => {
                // stable class: the message up to the first quoted name
                let what = message_class(&errors[0].message);
                return Verdict::Violation {
                    signature: format!("C14/acceptance/{}:{}", errors[0].kind, what.trim()),
                    detail: format!(
                        "the default rendering is accepted, the re-rendering (same program, other sugar/layout) is rejected: {}\n--- default ---\n{}\n--- variant ---\n{}",
                        ob.short(),
                        pa.text,
                        pb.text
                    ),
                };
            }
            Outcome::Panicked { .. } => return Verdict::Discard("compiler-panicked".into()),
        };
        let (na, nb) = (normalise(la), normalise(lb));
        if na != nb {
            let sa = String::from_utf8_lossy(&na).to_string();
            let sb = String::from_utf8_lossy(&nb).to_string();
            let la: Vec<&str> = sa.lines().collect();
            let lb: Vec<&str> = sb.lines().collect();
            let mut first = 0;
            while first < la.len().min(lb.len()) && la[first] == lb[first] {
                first += 1;
            }
            return Verdict::Violation {
                signature: "C14/bytes-differ".into(),
                detail: format!(
                    "emitted Lua differs at chunk line {}: {:?} vs {:?}\n--- default ---\n{}\n--- variant ---\n{}",
                    first + 1,
                    la.get(first),
                    lb.get(first),
                    pa.text,
                    pb.text
                ),
            };
        }
        let differing = s.call_prime + s.call_arrow + (s.ret - s.ret_trailing) + s.parens_added + s.comments_added + s.blanks_added + s.breaks_added;
        Verdict::Pass { nontrivial: differing >= 3 && (s.nested_sugar > 0 || (s.call_prime + s.call_arrow > 0 && s.breaks_added > 0)) }
    }

    fn simplify_at(&self, case: &Case, idx: usize) -> Step<Case> {
        let pc = ProgCase { prog: case.prog.clone(), plan: case.a.clone(), source: String::new() };
        match shrink_step(&pc, idx) {
            Step::End => Step::End,
            Step::Skip => Step::Skip,
            Step::Candidate(p) => {
                let source_a = render(&p.prog, &case.a).text;
                let source_b = render(&p.prog, &case.b).text;
                Step::Candidate(Case { prog: p.prog, a: case.a.clone(), b: case.b.clone(), source_a, source_b })
            }
        }
    }
    fn sample(&self, case: &Case) -> serde_json::Value {
        vcore::truncate_value(serde_json::json!({"default": render(&case.prog, &case.a).text, "variant": render(&case.prog, &case.b).text}), 1800)
    }
    fn rule(&self) -> String {
        "cases: one random well-typed GenAST program rendered twice: default surface plan vs a random plan choosing, per site, the call \
         form (f(a, b) / f' a, b where the greedy argument list cannot swallow anything or in parentheses / a -> f(b) for plain-name \
         callees), `ret e` vs trailing expression, `loop do` vs `loop true do`, redundant parentheses, comment lines and trailing \
         comments, blank lines, indentation (0-8 spaces or tab), a random top-level order shared by both renderings (a third of the cases), line breaks after commas and before binary operators / arrows inside () [] {} and call parentheses (also inside the argument list of a parenthesised prime call), CRLF. \
         Oracle: both accepted and the emitted Lua is byte-identical after replacing the number in `Reached unreachable code on line N`. \
         non-trivial = >= 3 differing sites including a nested sugar (prime/arrow call inside another sugared call) or a sugared call \
         together with a line break inside brackets; distinct by case hash"
            .into()
    }
    fn health(&self, s: &Stats) -> Result<(), String> {
        if s.evaluations < 200 {
            return Ok(());
        }
        if (s.label("accepted") as f64) < 0.5 * s.evaluations as f64 {
            return Err("fewer than half of the base programs compile".into());
        }
        for l in ["prime-call", "arrow-call", "nested-sugar", "ret-form", "redundant-parens", "comments", "line-breaks-in-brackets", "crlf"] {
            if s.label(l) * 25 < s.evaluations {
                return Err(format!("surface feature {} is (nearly) absent: {} of {}", l, s.label(l), s.evaluations));
            }
        }
        Ok(())
    }
}
