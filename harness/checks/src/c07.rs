//! C07 — the compiler is total: no panic, no abort, no hang; failures are rendered errors.
use arbitrary::Unstructured;
use serde::{Deserialize, Serialize};
use std::collections::BTreeMap;
use std::sync::atomic::{AtomicU64, Ordering};
use std::sync::OnceLock;
use syltmodel::gen::{Gen, GenCfg};
use syltmodel::print::{print_program, Plan as SurfacePlan};
use vcore::{compile_fs, Check, Labels, Outcome, Project, Step, Tape, Tier, Verdict};

pub struct C07;
pub const CHECK: C07 = C07;
pub fn plan(t: Tier) -> vcore::Plan {
    vcore::Plan::new(t.pick(20_000, 400_000), t.pick(2600, 4000))
}

#[derive(Clone, Serialize, Deserialize)]
pub struct Case {
    pub project: Project,
    pub origin: String,
}

fn corpus() -> &'static Vec<String> {
    static C: OnceLock<Vec<String>> = OnceLock::new();
    C.get_or_init(|| {
        let mut out = Vec::new();
        fn walk(d: &std::path::Path, out: &mut Vec<String>) {
            if let Ok(rd) = std::fs::read_dir(d) {
                let mut es: Vec<_> = rd.flatten().map(|e| e.path()).collect();
                es.sort();
                for p in es {
                    if p.is_dir() {
                        walk(&p, out);
                    } else if p.extension().map(|e| e == "sy").unwrap_or(false) {
                        if let Ok(s) = std::fs::read_to_string(&p) {
                            if s.len() < 6000 {
                                out.push(s);
                            }
                        }
                    }
                }
            }
        }
        walk(std::path::Path::new("/repo/tests"), &mut out);
        if out.is_empty() {
            out.push("start :: fn do\n    print(1)\nend\n".to_string());
        }
        out
    })
}

const TOKENS: &[&str] = &[
    "a", "b", "x", "f", "Foo", "Bar", "start", "self", "list", "print", "Maybe", "Just", "None", "_", "void", "bool", "int",
    "float", "str", "nil", "true", "false", "if", "elif", "else", "case", "is", "break", "continue", "in", "loop", "blob",
    "externblob", "enum", "ret", "+", "-", "*", "/", "+=", "-=", "*=", "/=", "#", ":", "::", ":=", "=", "==", "!=", "<=>",
    "<!>", "(", ")", "[", "]", "{", "}", "do", "end", ">", ">=", "<", "<=", "fn", "pu", "and", "or", "not", "!", "?", "|",
    "'", ",", ".", "->", "\n", "\n", "\n", "use", "from", "as", "external", "<<<<<<<", ">>>>>>>", "// c", "1", "0", "2.5",
    ".5", "1e3", "\"s\"", "\"\"", "99999999999999999999", "ö", "@", "$", "*X", "1.", "a.b", "f'", "(1, 2)", "[1]",
];

const STMTS: &[&str] = &[
    "A :: blob {}",
    "A :: blob { a: int, b: str }",
    "E :: enum\n    X,\n    Y int,\nend",
    "E :: enum X end",
    "x: int : external",
    "x: fn int -> int : external",
    "X :: externblob { a: int }",
    "use list",
    "use other",
    "use missing/",
    "use / as root",
    "from list use push",
    "from other use (a, b as c)",
    "break",
    "continue",
    "ret 1",
    "ret",
    "<!>",
    "loop do end",
    "loop true do break end",
    "x = 1",
    "x += 1",
    "x.y = 1",
    "x[0] = 1",
    "1 + 1",
    "x := 1",
    "x :: 1",
    "x: int = 1",
    "start :: fn do end",
    "f :: fn a, b -> do a + b end",
    "do end",
    "if true do end",
    "case Maybe.None do else end end",
    "1 <=> 1",
    "print' 1",
    "1 -> print()",
    "A { a: 1 }",
    "Maybe.Just 1",
    "q :: fn -> A do A { a: 1, b: \"\" } end",
    "<<<<<<< HEAD",
    "=======",
    ">>>>>>> other",
    "// only a comment",
    "",
];

fn contexts(stmt: &str, k: usize) -> String {
    let ind = |s: &str, n: usize| s.lines().map(|l| format!("{}{}", " ".repeat(n), l)).collect::<Vec<_>>().join("\n");
    match k % 9 {
        0 => format!("{}\nstart :: fn do\nend\n", stmt),
        1 => format!("start :: fn do\n{}\nend\n", ind(stmt, 4)),
        2 => format!("start :: fn do\n    if true do\n{}\n    end\nend\n", ind(stmt, 8)),
        3 => format!("start :: fn do\n    loop do\n{}\n        break\n    end\nend\n", ind(stmt, 8)),
        4 => format!("B :: blob {{ m: fn -> void }}\nstart :: fn do\n    b :: B {{ m: fn do\n{}\n    end }}\nend\n", ind(stmt, 8)),
        5 => format!("g :: fn -> int do\n{}\n    1\nend\nstart :: fn do\n    g()\nend\n", ind(stmt, 4)),
        6 => format!("start :: fn do\n    h :: fn do\n{}\n    end\n    h()\nend\n", ind(stmt, 8)),
        7 => format!("start :: fn do\n    case Maybe.Just 1 do\n        Just x ->\n{}\n        end\n        else\n        end\n    end\nend\n", ind(stmt, 12)),
        _ => format!("start :: fn do\n    x :: ({}\n    )\nend\n", stmt),
    }
}

fn tokens_of(s: &str) -> Vec<(usize, usize)> {
    // crude token boundaries for mutation: runs of identifier chars, runs of digits, single other chars, whitespace runs kept
    let b: Vec<(usize, char)> = s.char_indices().collect();
    let mut out = Vec::new();
    let mut i = 0;
    while i < b.len() {
        let (st, c) = b[i];
        let mut j = i + 1;
        if c.is_alphanumeric() || c == '_' {
            while j < b.len() && (b[j].1.is_alphanumeric() || b[j].1 == '_') {
                j += 1;
            }
        } else if c == ' ' {
            while j < b.len() && b[j].1 == ' ' {
                j += 1;
            }
        }
        let en = if j < b.len() { b[j].0 } else { s.len() };
        out.push((st, en));
        i = j;
    }
    out
}

fn mutate(t: &mut Tape, src: &str, other: &str) -> String {
    let mut s = src.to_string();
    let n = t.below(4) + 1;
    for _ in 0..n {
        let toks = tokens_of(&s);
        if toks.is_empty() {
            break;
        }
        match t.below(10) {
            0 => {
                // delete a token span
                let a = t.below(toks.len());
                let len = t.below(6) + 1;
                let b = (a + len).min(toks.len());
                s.replace_range(toks[a].0..toks[b - 1].1, "");
            }
            1 => {
                // insert a random token
                let a = t.below(toks.len());
                let tok = *t.pick(TOKENS);
                s.insert_str(toks[a].0, &format!(" {} ", tok));
            }
            2 => {
                // replace a token
                let a = t.below(toks.len());
                let tok = *t.pick(TOKENS);
                s.replace_range(toks[a].0..toks[a].1, tok);
            }
            3 => {
                // truncate
                let a = t.below(toks.len());
                s.truncate(toks[a].0);
            }
            4 => {
                // duplicate a line
                let lines: Vec<&str> = s.split('\n').collect();
                let a = t.below(lines.len());
                let mut l2: Vec<String> = lines.iter().map(|x| x.to_string()).collect();
                l2.insert(a, lines[a].to_string());
                s = l2.join("\n");
            }
            5 => {
                // delete a line
                let mut lines: Vec<String> = s.split('\n').map(|x| x.to_string()).collect();
                let a = t.below(lines.len());
                lines.remove(a);
                s = lines.join("\n");
            }
            6 => {
                // swap two lines
                let mut lines: Vec<String> = s.split('\n').map(|x| x.to_string()).collect();
                let a = t.below(lines.len());
                let b = t.below(lines.len());
                lines.swap(a, b);
                s = lines.join("\n");
            }
            7 => {
                // splice with another program
                let la: Vec<&str> = s.split('\n').collect();
                let lb: Vec<&str> = other.split('\n').collect();
                let a = t.below(la.len() + 1);
                let b = t.below(lb.len() + 1);
                let mut o: Vec<&str> = la[..a].to_vec();
                o.extend_from_slice(&lb[b..]);
                s = o.join("\n");
            }
            8 => {
                // insert a whole statement at a random line with that line's indentation
                let mut lines: Vec<String> = s.split('\n').map(|x| x.to_string()).collect();
                let a = t.below(lines.len());
                let ind: String = lines[a].chars().take_while(|c| *c == ' ').collect();
                let st = *t.pick(STMTS);
                let st: Vec<String> = st.lines().map(|l| format!("{}{}", ind, l)).collect();
                for (k, l) in st.into_iter().enumerate() {
                    lines.insert(a + k, l);
                }
                s = lines.join("\n");
            }
            _ => {
                // swap two tokens
                let a = t.below(toks.len());
                let b = t.below(toks.len());
                let (ta, tb) = (s[toks[a].0..toks[a].1].to_string(), s[toks[b].0..toks[b].1].to_string());
                let (lo, hi, tlo, thi) = if a <= b { (a, b, tb, ta) } else { (b, a, ta, tb) };
                if lo != hi {
                    s.replace_range(toks[hi].0..toks[hi].1, &thi);
                    s.replace_range(toks[lo].0..toks[lo].1, &tlo);
                }
            }
        }
        if s.len() > 8192 {
            let mut end = 8192;
            while !s.is_char_boundary(end) {
                end -= 1;
            }
            s.truncate(end);
        }
    }
    s
}

fn generated_program(t: &mut Tape) -> String {
    let mut cfg = GenCfg::core(false);
    cfg.max_decls = 4;
    cfg.decl_budget = 30;
    cfg.max_stmts = 5;
    let p = Gen::new(t, cfg).program();
    print_program(&p, &SurfacePlan::default()).text
}


/// Syntactically valid, semantically arbitrary: identifier occurrences of a valid program are replaced by other
/// identifiers of the same program (unresolved / ill-typed / cyclic / duplicate definitions), literals by
/// literals of another type, operators by other operators.
fn identifier_mutation(t: &mut Tape, src: &str) -> String {
    let mut s = src.to_string();
    let n = t.below(3) + 1;
    const KEYWORDS: &[&str] = &[
        "fn", "pu", "do", "end", "if", "elif", "else", "loop", "break", "continue", "ret", "case", "blob", "enum", "use", "from", "as",
        "and", "or", "not", "true", "false", "nil", "int", "float", "str", "bool", "void", "external", "in",
    ];
    for _ in 0..n {
        let toks = tokens_of(&s);
        let is_ident = |x: &str| x.chars().next().map(|c| c.is_alphabetic() || c == '_').unwrap_or(false) && !KEYWORDS.contains(&x);
        let idents: Vec<usize> = (0..toks.len()).filter(|&i| is_ident(&s[toks[i].0..toks[i].1])).collect();
        if idents.len() < 2 {
            break;
        }
        match t.below(6) {
            0 | 1 | 2 => {
                // one identifier occurrence becomes another identifier of the program
                let a = idents[t.below(idents.len())];
                let b = idents[t.below(idents.len())];
                let tb = s[toks[b].0..toks[b].1].to_string();
                s.replace_range(toks[a].0..toks[a].1, &tb);
            }
            3 => {
                // a definition is renamed to the name of another definition (duplicates, shadowing)
                let defs: Vec<usize> = idents.iter().copied().filter(|&i| s[toks[i].1..].trim_start_matches(' ').starts_with(':')).collect();
                if defs.len() >= 2 {
                    let a = defs[t.below(defs.len())];
                    let b = defs[t.below(defs.len())];
                    let tb = s[toks[b].0..toks[b].1].to_string();
                    s.replace_range(toks[a].0..toks[a].1, &tb);
                }
            }
            4 => {
                // a number becomes a string or a bool, or the other way round
                let lits: Vec<usize> = (0..toks.len())
                    .filter(|&i| {
                        let x = &s[toks[i].0..toks[i].1];
                        x.chars().all(|c| c.is_ascii_digit()) && !x.is_empty() || x == "true" || x == "false"
                    })
                    .collect();
                if !lits.is_empty() {
                    let a = lits[t.below(lits.len())];
                    let r = *t.pick(&["\"s\"", "true", "1", "2.5", "nil", "(1, 2)", "[1]"]);
                    s.replace_range(toks[a].0..toks[a].1, r);
                }
            }
            _ => {
                // `::` <-> `:=`, `fn` <-> `pu`
                if let Some(pos) = s.find(" :: ").filter(|_| t.bool()) {
                    s.replace_range(pos..pos + 4, " := ");
                } else if let Some(pos) = s.find("fn ") {
                    s.replace_range(pos..pos + 2, "pu");
                }
            }
        }
    }
    s
}

/// A random dependency graph among top-level definitions: values, mutable values, functions (called or only
/// mentioned), blobs whose fields mention other blobs; self loops, mutual recursion and longer cycles included.
fn dependency_graph(t: &mut Tape) -> String {
    let n = t.below(6) + 1;
    // kind: 0 constant value, 1 mutable value, 2 function, 3 function with parameter, 4 blob
    let kinds: Vec<usize> = (0..n).map(|_| t.weighted(&[25, 10, 35, 15, 15])).collect();
    let mut out = String::new();
    let mut order: Vec<usize> = (0..n).collect();
    for i in (1..n).rev() {
        let j = t.below(i + 1);
        order.swap(i, j);
    }
    let mention = |t: &mut Tape, j: usize, kinds: &[usize]| -> String {
        match kinds[j] {
            0 | 1 => format!("g{}", j),
            2 => if t.chance(5, 6) { format!("g{}()", j) } else { format!("g{}", j) },
            3 => if t.chance(5, 6) { format!("g{}(1)", j) } else { format!("g{}", j) },
            _ => format!("G{} {{ }}", j),
        }
    };
    for &i in &order {
        let deps: Vec<usize> = (0..t.below(4)).map(|_| t.below(n)).collect();
        match kinds[i] {
            0 | 1 => {
                let op = if kinds[i] == 0 { "::" } else { ":=" };
                let mut e = String::from("1");
                for &d in &deps {
                    if kinds[d] == 4 {
                        continue;
                    }
                    e.push_str(" + ");
                    e.push_str(&mention(t, d, &kinds));
                }
                out.push_str(&format!("g{} {} {}\n", i, op, e));
            }
            2 | 3 => {
                let params = if kinds[i] == 3 { "a: int " } else { "" };
                let kw = if t.chance(1, 6) { "pu" } else { "fn" };
                out.push_str(&format!("g{} :: {} {}-> int do\n", i, kw, params));
                let mut e = String::from(if kinds[i] == 3 { "a" } else { "1" });
                for &d in &deps {
                    if kinds[d] == 4 {
                        out.push_str(&format!("    b{} :: G{} {{ }}\n", d, d));
                        continue;
                    }
                    if t.chance(1, 5) {
                        out.push_str(&format!("    if false do\n        g{} = 2\n    end\n", d));
                    }
                    e.push_str(" + ");
                    e.push_str(&mention(t, d, &kinds));
                }
                out.push_str(&format!("    {}\nend\n", e));
            }
            _ => {
                out.push_str(&format!("G{} :: blob {{", i));
                let mut first = true;
                for &d in &deps {
                    if !first {
                        out.push(',');
                    }
                    first = false;
                    if kinds[d] == 4 {
                        out.push_str(&format!(" f{}: G{}", d, d));
                    } else {
                        out.push_str(&format!(" f{}: int", d));
                    }
                }
                out.push_str(" }\n");
            }
        }
    }
    out.push_str("start :: fn do\n");
    for i in 0..n {
        if t.bool() {
            match kinds[i] {
                4 => {}
                _ => out.push_str(&format!("    print({})\n", mention(t, i, &kinds))),
            }
        }
    }
    out.push_str("end\n");
    out
}


/// Syntactically valid statements over a handful of untyped variables: assignments that tie types into knots
/// (a list that contains itself, a function that returns itself, variables unified with each other's
/// containers), comparisons, calls and pushes between them. Most programs are ill-typed; all must be handled.
fn type_knots(t: &mut Tape) -> String {
    let vars = ["a", "b", "c", "d"];
    let nv = t.below(3) + 2;
    let mut out = String::from("start :: fn do\n");
    let inits = ["[]", "[1]", "(1, 2)", "1", "\"s\"", "fn x do x end", "fn x -> do [x] end", "nil", "[[]]", "Maybe.None", "fn -> do 1 end"];
    for v in vars.iter().take(nv) {
        out.push_str(&format!("    {} := {}\n", v, t.pick(&inits)));
    }
    // self-referential types first: each variable may be tied to a container of itself
    for v in vars.iter().take(nv) {
        if t.chance(1, 2) {
            let st = match t.below(6) {
                0 => format!("{} = [{}]", v, v),
                1 => format!("list.push({}, {})", v, v),
                2 => format!("{} = fn -> do {} end", v, v),
                3 => format!("{} = Maybe.Just {}", v, v),
                4 => format!("{} = fn q do {}(q) end", v, v),
                _ => format!("{} = [[{}]]", v, v),
            };
            out.push_str(&format!("    {}\n", st));
        }
    }
    let n = t.below(8) + 1;
    for _ in 0..n {
        let x = vars[t.below(nv)];
        let y = vars[t.below(nv)];
        let z = vars[t.below(nv)];
        let st = match t.below(28) {
            0 => format!("{} = [{}]", x, y),
            1 | 22 | 23 | 24 => format!("{} = {}", x, y),
            25 | 26 => format!("print({} == {})", x, y),
            27 => format!("{} <=> {}", x, y),
            2 => format!("{} = ({}, {})", x, y, z),
            3 => format!("list.push({}, {})", x, y),
            4 => format!("{} = {}({})", x, y, z),
            5 => format!("{} = fn q do {} end", x, y),
            6 => format!("{} = fn q -> do {}(q) end", x, y),
            7 => format!("print({} == {})", x, y),
            8 => format!("{} <=> {}", x, y),
            9 => format!("{} = {}[0]", x, y),
            10 => format!("{} = list.get({}, 0)", x, y),
            11 => format!("{} = Maybe.Just {}", x, y),
            12 => format!("{} = [{}, {}]", x, y, z),
            13 => format!("{} += {}", x, y),
            14 => format!("{} = {} + {}", x, y, z),
            15 => format!("{} = if true do {} else {} end", x, y, z),
            16 => format!("print({} < {})", x, y),
            17 => format!("{} = map({}, fn q do {} end)", x, y, z),
            18 => format!("{} = {}.f", x, y),
            19 => format!("{}({})", x, y),
            20 => format!("{} = fn -> do {} end", x, x),
            _ => format!("{} = ({},)", x, x),
        };
        out.push_str("    ");
        out.push_str(&st);
        out.push('\n');
    }
    out.push_str("end\n");
    out
}

/// A random type expression over the whole type grammar: primitives, wildcards and generics, lists, tuples of
/// every length, function types (with constraints), and user / library types applied to ANY number of type
/// arguments (too few, exact, too many), unknown names and unknown namespaces. Most are invalid somewhere.
fn type_expr(t: &mut Tape, depth: usize) -> String {
    const PRIM: &[&str] = &["int", "float", "bool", "str", "void", "nil", "*", "*A", "*B", "*a"];
    const USER: &[&str] = &["Zero", "One", "Two", "En", "Ext", "Maybe", "dict.Dict", "set.Set", "Nope", "nope.Nope", "list.Nope", "One.Two", "maybe.Maybe"];
    if depth == 0 || t.chance(1, 3) {
        return t.pick(PRIM).to_string();
    }
    let mut sub = |t: &mut Tape| type_expr(t, depth - 1);
    match t.below(9) {
        0 => format!("[{}]", sub(t)),
        1 => {
            let n = t.below(4);
            let parts: Vec<String> = (0..n).map(|_| sub(t)).collect();
            match n {
                0 => "()".to_string(),
                1 => format!("({}{})", parts[0], if t.bool() { "," } else { "" }),
                _ => format!("({})", parts.join(", ")),
            }
        }
        2 | 3 => {
            let n = t.below(4);
            let parts: Vec<String> = (0..n).map(|_| sub(t)).collect();
            let kw = if t.chance(1, 4) { "pu" } else { "fn" };
            let cons = match t.below(8) {
                0 => "<A: Num> ",
                1 => "<A: Num + Add, B: Container> ",
                2 => "<a: Field x int> ",
                3 => "<Q: Nope> ",
                _ => "",
            };
            let ret = if t.chance(1, 4) { String::new() } else { format!(" {}", sub(t)) };
            format!("{} {}{} ->{}", kw, cons, parts.join(", "), ret)
        }
        4..=7 => {
            let name = *t.pick(USER);
            let n = t.below(4);
            if n == 0 && t.bool() {
                name.to_string()
            } else {
                let parts: Vec<String> = (0..n).map(|_| sub(t)).collect();
                format!("{}({})", name, parts.join(", "))
            }
        }
        _ => t.pick(PRIM).to_string(),
    }
}

/// Declarations whose annotations are random type expressions, in every position an annotation can stand:
/// parameters, return types, local and global definitions, externals, blob fields, enum payloads.
pub fn type_grammar(t: &mut Tape) -> String {
    let mut out = String::new();
    out.push_str("Zero :: blob {}\nOne :: blob(*A) {\n    a: *A,\n}\nTwo :: blob(*A, *B) {\n    a: *A,\n    b: *B,\n}\n");
    out.push_str("En :: enum(*A)\n    L *A,\n    R,\nend\nExt :: externblob(*T) {\n    v: *T,\n}\n");
    let n = t.below(5) + 1;
    let mut body = String::new();
    for i in 0..n {
        let ty = type_expr(t, 3);
        match t.below(9) {
            0 => out.push_str(&format!("g{}: {} : external\n", i, ty)),
            1 => out.push_str(&format!("f{} :: fn p: {} do\n    p\nend\n", i, ty)),
            2 => out.push_str(&format!("f{} :: fn -> {} do\n    <!>\nend\n", i, ty)),
            3 => out.push_str(&format!("B{} :: blob {{\n    f: {},\n}}\n", i, ty)),
            4 => out.push_str(&format!("E{} :: enum\n    V {},\n    W,\nend\n", i, ty)),
            5 => {
                out.push_str(&format!("x{}: * : external\n", i));
                body.push_str(&format!("    l{}: {} = x{}\n    l{}\n", i, ty, i, i));
            }
            6 => {
                out.push_str(&format!("h{} :: fn p: {}, q: {} -> {} do\n    q\n    p\nend\n", i, ty, type_expr(t, 2), type_expr(t, 2)));
            }
            7 => {
                out.push_str(&format!("k{}: {} : external\n", i, ty));
                let u = match t.below(6) {
                    0 => format!("k{}.a", i),
                    1 => format!("k{} == k{}", i, i),
                    2 => format!("k{}(1)", i),
                    3 => format!("k{}[0]", i),
                    4 => format!("case k{} do\n        L q -> q end\n        else end\n    end", i),
                    _ => format!("k{} + k{}", i, i),
                };
                body.push_str(&format!("    {}\n", u));
            }
            _ => body.push_str(&format!("    c{} :: fn p: {} -> {} do\n        p\n    end\n", i, ty, type_expr(t, 1))),
        }
    }
    out.push_str("start :: fn do\n");
    out.push_str(&body);
    out.push_str("end\n");
    out
}

fn soup(t: &mut Tape) -> String {
    let n = t.below(120) + 1;
    let mut s = String::new();
    for _ in 0..n {
        // grammar bias: sometimes a whole statement
        if t.chance(1, 6) {
            s.push_str(*t.pick(STMTS));
            s.push('\n');
        } else {
            s.push_str(*t.pick(TOKENS));
            if !t.chance(1, 8) {
                s.push(' ');
            }
        }
    }
    if t.bool() {
        s.push_str("\nstart :: fn do\nend\n");
    }
    s
}

fn multi_file(t: &mut Tape) -> Project {
    let names = ["main", "other", "third", "sub/exports", "sub/inner", "åäö"];
    let n = t.below(4) + 1;
    let mut files = BTreeMap::new();
    let c = corpus();
    for i in 0..n {
        let name = if i == 0 { "main" } else { names[1 + t.below(names.len() - 1)] };
        let mut s = String::new();
        let imports = t.below(4);
        for _ in 0..imports {
            let target = *t.pick(&["main", "other", "third", "sub/", "sub/inner", "/sub/inner", "missing", "/", "list", "math", "åäö", "other/"]);
            match t.below(5) {
                0 => s.push_str(&format!("use {}\n", target)),
                1 => s.push_str(&format!("use {} as {}\n", target, t.pick(&["o", "other", "list", "x", "main"]))),
                2 => s.push_str(&format!("from {} use {}\n", target, t.pick(&["x", "y", "start", "push", "A", "missing"]))),
                3 => s.push_str(&format!("from {} use (x as {}, y)\n", target, t.pick(&["x", "y", "z", "start"]))),
                _ => s.push_str(&format!("from {} use x, x\n", target)),
            }
        }
        match t.below(7) {
            0 => {}
            1 => s.push_str("// only a comment\n"),
            2 => s.push_str("<<<<<<< HEAD\nx :: 1\n=======\nx :: 2\n>>>>>>> b\n"),
            3 => {
                let x: &String = t.pick(&c[..]);
                s.push_str(x)
            }
            _ => s.push_str("x :: 1\ny := 2\nA :: blob { a: int }\n"),
        }
        if i == 0 && t.chance(4, 5) {
            s.push_str("start :: fn do\n    print(x)\nend\n");
        }
        if t.chance(1, 6) {
            s = mutate(t, &s, "x :: other.x + 1\n");
        }
        files.insert(format!("/p/{}.sy", name), s);
    }
    Project { files, main: "/p/main.sy".into(), std: !t.chance(1, 4), require: None }
}

/// Otherwise valid projects whose entry point is bound in an unusual way: `start` as an import alias, a namespace, a
/// value, a mutable / parameterised / pure function, defined only in another file, twice, or not at all.
fn entry_points(t: &mut Tape) -> Project {
    let other = "answer :: 42\nrun :: fn do\n    print(answer)\nend\n";
    let other_with_start = "answer :: 42\nstart :: fn do\n    print(answer)\nend\n";
    let body = "main :: fn do\n    print(1)\nend\n";
    let mut files = BTreeMap::new();
    let main: String = match t.below(16) {
        0 => format!("use other as start\n{}", body),
        1 => format!("from other use run as start\n{}", body),
        2 => format!("from other use answer as start\n{}", body),
        3 => {
            files.insert("/p/start.sy".to_string(), other.to_string());
            format!("use start\n{}", body)
        }
        4 => {
            files.insert("/p/other.sy".to_string(), other_with_start.to_string());
            format!("from other use start\n{}", body)
        }
        5 => {
            files.insert("/p/other.sy".to_string(), other_with_start.to_string());
            format!("use other\n{}", body)
        }
        6 => format!("use other\nstart :: other.run\n{}", body),
        7 => format!("{}start :: 1\n", body),
        8 => format!("{}start := fn do\n    main()\nend\n", body),
        9 => format!("{}start :: fn a: int do\n    main()\nend\n", body),
        10 => format!("{}start :: pu do\nend\n", body),
        11 => format!("{}start :: fn -> int do\n    1\nend\n", body),
        12 => format!("{}Start :: blob {{ a: int }}\nstart :: Start {{ a: 1 }}\n", body),
        13 => format!("{}start :: fn do\n    main()\nend\nstart :: fn do\nend\n", body),
        14 => format!("{}start :: main\n", body),
        _ => body.to_string(),
    };
    files.entry("/p/other.sy".to_string()).or_insert_with(|| other.to_string());
    files.insert("/p/main.sy".to_string(), main);
    Project { files, main: "/p/main.sy".into(), std: !t.chance(1, 3), require: None }
}

static COUNTER: AtomicU64 = AtomicU64::new(0);

impl Check for C07 {
    type Case = Case;
    fn id(&self) -> &'static str {
        "C07"
    }
    fn generate(&self, u: &mut Unstructured, _tier: Tier) -> Option<Case> {
        let mut t = Tape::new(u);
        let c = corpus();
        let (project, origin) = match t.weighted(&[20, 30, 15, 15, 20, 25, 25, 15, 20, 15, 6]) {
            8 => (Project::single(type_knots(&mut t)), "type-knots"),
            9 => (Project::single(type_grammar(&mut t)), "type-grammar"),
            10 => (entry_points(&mut t), "entry-points"),
            6 => {
                let a = if t.chance(2, 3) { generated_program(&mut t) } else { t.pick(c).clone() };
                (Project::single(identifier_mutation(&mut t, &a)), "identifier-mutation")
            }
            7 => (Project::single(dependency_graph(&mut t)), "dependency-graph"),
            5 => {
                // a full-size valid generated program (the sizes C01 uses), with a random subset of its type
                // annotations erased (inference does more work then)
                let p = Gen::new(&mut t, GenCfg::core(false)).program();
                let mut plan = SurfacePlan::default();
                match t.below(3) {
                    0 => {}
                    1 => plan.annot_default = (false, false, false),
                    _ => {
                        plan.annot_default = (false, false, false);
                        plan.annot = syltmodel::print::Choices((0..300).map(|_| if t.bool() { 1 } else { 0 }).collect());
                    }
                }
                (Project::single(print_program(&p, &plan).text), "generated-valid")
            }
            0 => {
                let mut p = Project::single(soup(&mut t));
                p.std = !t.chance(1, 3);
                (p, "token-soup")
            }
            1 => {
                let a = t.pick(c).clone();
                let b = t.pick(c).clone();
                let mut p = Project::single(mutate(&mut t, &a, &b));
                p.std = !t.chance(1, 4);
                (p, "corpus-mutation")
            }
            2 => {
                let a = generated_program(&mut t);
                let b = t.pick(c).clone();
                let s = if t.chance(1, 5) { a } else { mutate(&mut t, &a, &b) };
                (Project::single(s), "generated-mutation")
            }
            3 => {
                let st = *t.pick(STMTS);
                let k = t.below(9);
                let mut p = Project::single(contexts(st, k));
                p.std = !t.chance(1, 4);
                (p, "misplaced-statement")
            }
            _ => (multi_file(&mut t), "multi-file"),
        };
        Some(Case { project, origin: origin.to_string() })
    }

    fn evaluate(&self, case: &Case, labels: &mut Labels) -> Verdict {
        labels.add(format!("origin:{}", case.origin));
        let n = COUNTER.fetch_add(1, Ordering::Relaxed);
        let dir = std::env::temp_dir().join(format!("verif-c07-{}-{}", std::process::id(), n));
        let proj = match case.project.materialize(&dir) {
            Ok(p) => p,
            Err(_) => {
                let _ = std::fs::remove_dir_all(&dir);
                return Verdict::Discard("materialize-failed".into());
            }
        };
        let out = compile_fs(&proj);
        let _ = std::fs::remove_dir_all(&dir);
        // token statistics of the main file
        let toks = vcore::guarded(|| sylt_tokenizer::string_to_tokens(0, case.project.main_src()));
        let (ntok, nerr) = match &toks {
            Ok(ts) => (ts.len(), ts.iter().filter(|t| t.token == sylt_tokenizer::Token::Error).count()),
            Err((m, l)) => {
                return Verdict::Violation {
                    signature: format!("C07/panic/{}", l.trim_start_matches("/repo/")),
                    detail: format!("tokenizer panicked: {} at {}", m, l),
                }
            }
        };
        match &out {
            Outcome::Panicked { message, location, .. } => Verdict::Violation {
                signature: format!("C07/panic/{}", location),
                detail: format!("compiler panicked at {}: {}\n--- main file ---\n{}", location, message, case.project.main_src()),
            },
            Outcome::Rejected { errors, bytes_written } => {
                if errors.is_empty() {
                    return Verdict::Violation {
                        signature: "C07/empty-error-list".into(),
                        detail: format!("compile failed with an empty list of errors\n{}", case.project.main_src()),
                    };
                }
                for e in errors {
                    if let Some(p) = &e.render_panic {
                        return Verdict::Violation {
                            signature: format!("C07/render-panic/{}", p.split(" at ").last().unwrap_or("")),
                            detail: format!("rendering a {} error panicked: {}\n--- main file ---\n{}", e.kind, p, case.project.main_src()),
                        };
                    }
                    if e.rendered.as_ref().map(|r| r.trim().is_empty()).unwrap_or(true) {
                        return Verdict::Violation {
                            signature: "C07/empty-rendering".into(),
                            detail: format!("a {} error renders to nothing", e.kind),
                        };
                    }
                }
                if *bytes_written > 0 {
                    return Verdict::Violation {
                        signature: "C07/rejected-but-wrote-lua".into(),
                        detail: format!("{} bytes written although compilation failed", bytes_written),
                    };
                }
                labels.add(format!("rejected:{}", errors[0].kind));
                let deep = errors.iter().any(|e| e.kind == "Compile" || e.kind == "Type");
                Verdict::Pass { nontrivial: deep && ntok > 3 && nerr * 5 < ntok }
            }
            Outcome::Accepted(b) => {
                if b.is_empty() {
                    return Verdict::Violation { signature: "C07/accepted-without-output".into(), detail: "no Lua written".into() };
                }
                labels.add("accepted");
                Verdict::Pass { nontrivial: ntok > 3 }
            }
        }
    }

    fn death_is_violation(&self) -> Option<String> {
        Some("C07/process-died".into())
    }

    fn simplify_at(&self, case: &Case, idx: usize) -> Step<Case> {
        // candidates: drop a non-main file; then remove indentation blocks / single lines of each file
        let mut k = idx;
        let names: Vec<String> = case.project.files.keys().cloned().collect();
        let others: Vec<&String> = names.iter().filter(|n| **n != case.project.main).collect();
        if k < others.len() {
            let mut c = case.clone();
            c.project.files.remove(others[k]);
            return Step::Candidate(c);
        }
        k -= others.len();
        for name in &names {
            let src = &case.project.files[name];
            let lines: Vec<&str> = src.split('\n').collect();
            let n = lines.len();
            // phase A: remove line i together with its more-indented block (and a closing `end`)
            if k < n {
                let i = k;
                if lines[i].trim().is_empty() {
                    return Step::Skip;
                }
                let ind = lines[i].chars().take_while(|c| *c == ' ').count();
                let mut j = i + 1;
                while j < n && (lines[j].trim().is_empty() || lines[j].chars().take_while(|c| *c == ' ').count() > ind) {
                    j += 1;
                }
                if j < n && j > i + 1 && lines[j].trim_start().starts_with("end") && lines[j].chars().take_while(|c| *c == ' ').count() == ind {
                    j += 1;
                }
                let mut out: Vec<&str> = lines[..i].to_vec();
                out.extend_from_slice(&lines[j..]);
                let mut c = case.clone();
                c.project.files.insert(name.clone(), out.join("\n"));
                return Step::Candidate(c);
            }
            k -= n;
            // phase B: remove a single line
            if k < n {
                if lines[k].trim().is_empty() {
                    return Step::Skip;
                }
                let mut out: Vec<&str> = lines.clone();
                out.remove(k);
                let mut c = case.clone();
                c.project.files.insert(name.clone(), out.join("\n"));
                return Step::Candidate(c);
            }
            k -= n;
        }
        Step::End
    }

    fn sample(&self, case: &Case) -> serde_json::Value {
        vcore::truncate_value(serde_json::json!({"origin": case.origin, "std": case.project.std, "files": case.project.files}), 1500)
    }

    fn rule(&self) -> String {
        "cases: (1) token soup over the full token alphabet with statement fragments, (2) byte/token/line mutations, truncations \
         and splices of the programs under /repo/tests, (3) the same on generated valid programs, (4) every statement kind \
         misplaced into 9 contexts, (5) 1-4 file projects with missing/cyclic/duplicate/aliased imports, conflict markers, empty \
         and comment-only files, (6) valid generated programs with erased annotations, (7) identifier-level mutations of valid programs (an identifier occurrence or a definition's name becomes another identifier of the program, literals change type, `::`<->`:=`, `fn`<->`pu`: syntactically valid, semantically arbitrary), (8) random dependency graphs among top-level values, functions and blobs (self loops, mutual recursion, longer cycles), (9) type knots: valid statements over a few untyped variables that tie types into cycles (a list containing itself, a function returning itself, variables unified with each other's containers); std on and off; files are materialised so that error rendering reads real sources. Oracle: \
         compile returns Accepted(non-empty Lua) or Rejected(non-empty error list, zero bytes written), every error's Display \
         renders without panicking to non-empty text, no panic; a child process that dies (abort/OOM at 6 GiB address space/30 s \
         watchdog) is a violation. non-trivial = fewer than 20% error tokens and the input reaches name resolution or later \
         (Compile/Type error or accepted); distinct by hash of the project"
            .into()
    }
    fn assumptions(&self) -> Vec<String> {
        vec![
            "hang rule: a single compile exceeding the 30 s watchdog (>1000x the typical cost at <=8 KB input) or a 6 GiB address space is reported as non-termination/resource exhaustion; nesting depth is bounded by the generators (<=12) so native stack depth is not what is measured".into(),
        ]
    }
}
