//! C01 — compiled Lua behaves as the Sylt source denotes (differential: reference interpreter vs mini-Lua).
use crate::common::*;
use arbitrary::Unstructured;
use syltmodel::gen::{Gen, GenCfg};
use syltmodel::print::Plan as SurfacePlan;
use vcore::{Check, Labels, Stats, Step, Tape, Tier, Verdict};

pub struct C01;
pub const CHECK: C01 = C01;
pub fn plan(t: Tier) -> vcore::Plan {
    vcore::Plan::new(t.pick(24_000, 400_000), t.pick(2600, 4000))
}

impl Check for C01 {
    type Case = ProgCase;
    fn id(&self) -> &'static str {
        "C01"
    }
    fn generate(&self, u: &mut Unstructured, tier: Tier) -> Option<ProgCase> {
        let mut t = Tape::new(u);
        let mut cfg = GenCfg::core(tier == Tier::Thorough);
        // 20 % of the budget runs with the known-finding avoidance switches off (hits are classified)
        let raw = t.chance(1, 5);
        if raw {
            cfg.avoid_stmt_after_ret = false;
            cfg.avoid_unused_andor = false;
        }
        // a quarter of the programs draw string literals from arbitrary characters (control characters next to digits,
        // raw newlines, quotes of the other kind, multi-byte text) instead of the plain pool
        if t.chance(1, 4) {
            cfg.plain_strings = false;
            cfg.one_line_strings = true; // the trace is compared line by line
        }
        if let Ok(off) = std::env::var("GEN_OFF") {
            for f in off.split(',') {
                match f {
                    "recursion" => cfg.recursion = false,
                    "higher_order" => cfg.higher_order = false,
                    "closures" => cfg.closures = false,
                    "methods" => cfg.methods = false,
                    x if x.starts_with("fnx=") => cfg.max_fn_exprs = x[4..].parse().unwrap_or(7),
                    x if x.starts_with("pfnx=") => {
                        cfg.max_fn_exprs = x[5..].parse().unwrap_or(7);
                        cfg.fn_exprs_program_wide = true;
                    }
                    _ => {}
                }
            }
        }
        let prog = Gen::new(&mut t, cfg).program();
        let mut plan = SurfacePlan::default();
        plan.annot_default = (t.chance(1, 4), true, true);
        // a third of the programs are written in a random top-level order (definitions used before they are written)
        if t.chance(1, 3) {
            let n = prog.blobs.len() + prog.enums.len() + prog.globals.len();
            let mut v: Vec<usize> = (0..n).collect();
            if t.bool() {
                // the exact reverse of the generation order: every definition stands above everything it uses
                v.reverse();
            } else {
                for i in (1..n).rev() {
                    let j = t.below(i + 1);
                    v.swap(i, j);
                }
            }
            plan.order = Some(v);
        }
        // a quarter of the programs are written with maximal legal shadowing (binders reuse each other's names:
        // a case binding named like a parameter, a loop-local named like an outer local, ...)
        if t.chance(1, 4) {
            let (names, _) = syltmodel::scope::shadow_plan(&mut t, &prog);
            plan.names = Some(names);
        }
        let source = render(&prog, &plan).text;
        Some(ProgCase { prog, plan, source })
    }

    fn evaluate(&self, case: &ProgCase, labels: &mut Labels) -> Verdict {
        if let Some(names) = &case.plan.names {
            // (a shrunk program keeps the plan of the original; re-validate it against the independent scope model)
            let rep = syltmodel::scope::check(&case.prog, names);
            if !rep.ok {
                return Verdict::Discard("shadowing plan no longer consistent".into());
            }
            labels.add("names:shadowing-plan");
            if rep.shadowed_refs > 0 {
                labels.add("names:shadowed-references");
            }
        }
        let ev = crate::trace::trace_eval("C01", case, labels, false);
        match (ev.verdict, ev.reference) {
            (Verdict::Pass { .. }, Some(r)) => {
                use syltmodel::interp::Cov;
                let cov = cov_labels(&r);
                let events = r.out.len() + 1;
                let branch = r.cov[Cov::IfStmt as usize] + r.cov[Cov::IfExpr as usize] + r.cov[Cov::Case as usize] > 0;
                let call = r.cov[Cov::UserCall as usize] + r.cov[Cov::ClosureCall as usize] + r.cov[Cov::MethodSelf as usize] > 0;
                Verdict::Pass { nontrivial: events >= 3 && cov.len() >= 4 && branch && call }
            }
            (v, _) => v,
        }
    }

    fn simplify_at(&self, case: &ProgCase, idx: usize) -> Step<ProgCase> {
        shrink_step(case, idx)
    }

    fn sample(&self, case: &ProgCase) -> serde_json::Value {
        sample_of(case)
    }

    fn rule(&self) -> String {
        "cases: type-directed random well-typed Sylt programs (GenAST core profile) decoded from a byte tape, a third of them written in a random top-level order; \
         oracle: printed lines + terminal (Ok / assert failed / <!> with line) of the reference interpreter equal \
         those of mini-Lua running the emitted chunk; non-trivial = accepted, unambiguous, >=3 trace events, >=4 of 24 \
         construct classes executed, at least one branch and one user/closure call executed; distinct by hash of the case"
            .into()
    }
    fn assumptions(&self) -> Vec<String> {
        vec![
            "mini-Lua (harness/minilua) agrees with Lua 5.3 on the subset the emitter uses (validated by ./check selftest)".into(),
            "reference semantics: left-to-right sequencing of calls; int = wrapping i64; / yields float; read timing of fields \
             relative to later writes in the same sequence region is unspecified (such cases are discarded)"
                .into(),
        ]
    }
    fn health(&self, s: &Stats) -> Result<(), String> {
        if s.evaluations < 200 {
            return Ok(());
        }
        let acc = s.label("accepted") as f64 / s.evaluations as f64;
        if acc < 0.9 {
            return Err(format!("only {:.0}% of generated programs are accepted by the compiler", acc * 100.0));
        }
        if s.label("ref-dynerror") * 50 > s.evaluations {
            return Err("reference interpreter reports dynamic errors on generated (supposedly well-typed) programs".into());
        }
        if (s.nontrivial as f64) < 0.25 * s.evaluations as f64 {
            return Err(format!("only {} of {} cases are non-trivial", s.nontrivial, s.evaluations));
        }
        Ok(())
    }
}
