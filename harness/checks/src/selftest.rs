//! Validation of the trusted base: every program under /repo/tests without an `// error:` line must
//! compile and run to Ok under mini-Lua; `// error: #` programs must end in a runtime error.
use std::path::{Path, PathBuf};
use vcore::luarun::{run_lua, LuaOutcome, Terminal};
use vcore::{compile_fs, Outcome, Project};

fn collect(dir: &Path, out: &mut Vec<PathBuf>) {
    if let Ok(rd) = std::fs::read_dir(dir) {
        let mut es: Vec<_> = rd.flatten().map(|e| e.path()).collect();
        es.sort();
        for p in es {
            if p.is_dir() {
                collect(&p, out);
            } else if p.extension().map(|e| e == "sy").unwrap_or(false) {
                out.push(p);
            }
        }
    }
}

pub fn run() -> i32 {
    vcore::install_panic_hook();
    let mut files = Vec::new();
    collect(Path::new("/repo/tests"), &mut files);
    let (mut ok, mut rt, mut skipped, mut bad) = (0, 0, 0, 0);
    for f in &files {
        let name = f.file_name().unwrap().to_string_lossy().to_string();
        if name.starts_with('_') || f.components().any(|c| c.as_os_str().to_string_lossy().starts_with('_')) {
            continue;
        }
        let src = match std::fs::read_to_string(f) {
            Ok(s) => s,
            Err(_) => continue,
        };
        let errs: Vec<&str> = src.lines().filter(|l| l.starts_with("// error:")).collect();
        let runtime_only = !errs.is_empty() && errs.iter().all(|l| l.trim_start_matches("// error:").trim().starts_with('#'));
        if !errs.is_empty() && !runtime_only {
            skipped += 1;
            continue;
        }
        let mut files = std::collections::BTreeMap::new();
        files.insert(f.to_string_lossy().to_string(), src.clone());
        let proj = Project { files, main: f.to_string_lossy().to_string(), std: true, require: None };
        let out = vcore::on_big_stack(256, move || compile_fs(&proj));
        let lua = match out {
            Outcome::Accepted(b) => b,
            other => {
                println!("selftest: {} does not compile: {}", f.display(), other.short());
                bad += 1;
                continue;
            }
        };
        match run_lua(&lua, 50_000_000) {
            LuaOutcome::LoadError { class, msg, .. } => {
                println!("selftest: {} emitted chunk fails to load ({}): {}", f.display(), class, msg);
                bad += 1;
            }
            LuaOutcome::Ran(t) => match (&t.terminal, runtime_only) {
                (Terminal::Ok, false) => ok += 1,
                (Terminal::Ok, true) => {
                    println!("selftest: {} expected a runtime error but ran to Ok", f.display());
                    bad += 1;
                }
                (Terminal::OutOfBudget(_), _) => {
                    println!("selftest: {} out of budget", f.display());
                    bad += 1;
                }
                (_, true) => rt += 1,
                (other, false) => {
                    println!("selftest: {} expected Ok, got {:?}", f.display(), other);
                    bad += 1;
                }
            },
        }
    }
    println!("selftest: corpus ok={} runtime-error-as-expected={} skipped(compile errors expected)={} deviations={}", ok, rt, skipped, bad);
    if bad > 0 {
        2
    } else {
        0
    }
}
