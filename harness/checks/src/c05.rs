//! C05 — blob, enum, tuple, loop and entry-point shape rules are enforced (planted-fault search).
//!
//! A case is a generated well-typed base program + generated blob/enum declarations (1-6 fields/variants,
//! scalar/tuple/list types, optionally one type parameter) + ONE planted violation of one of the rules at a
//! generated placement (statement site, expression site, imported module, or — for the entry-point rules —
//! the whole program). The same choices are rendered twice: as the violation and as its legal twin.
//! Oracle: base accepted (else discard), twin accepted (else discard) and its Lua loads, violation rejected
//! with >= 1 error and zero bytes written.
use crate::common::{render, shrink_step, ProgCase};
use arbitrary::Unstructured;
use serde::{Deserialize, Serialize};
use std::collections::BTreeMap;
use syltmodel::ast::*;
use syltmodel::gen::{Gen, GenCfg};
use syltmodel::plant::{self, Ctx, Placement};
use syltmodel::print::Plan as SurfacePlan;
use vcore::{compile, Check, Labels, Outcome, Plan, Project, Stats, Step, Tape, Tier, Verdict};

#[path = "c05_cat.rs"]
mod cat;
use cat::{core_is_expr, render_entry, site_literal, BlobD, Decls, EnumD, FTy, Kind, Spec, ALL_KINDS};

pub struct C05;
pub const CHECK: C05 = C05;
pub fn plan(t: Tier) -> Plan {
    let mut p = Plan::new(t.pick(16_000, 200_000), t.pick(3000, 4200));
    // the structural shrinker does the real work; keep proptest's tape shrinking short
    p.max_shrink_iters = 60;
    p
}

const MARK: &str = "@@C05@@";
const LIB_MAIN: &str = "use lib\nstart :: fn do\n    lib.start()\nend\n";

#[derive(Clone, Debug, Serialize, Deserialize)]
pub struct Place {
    pub placement: String,
    pub closure_depth: usize,
    pub in_pure: bool,
    pub in_loop: bool,
    pub in_outer_loop_only: bool,
    /// start | used-fn | unused-fn | global-init | program
    pub fn_use: String,
}

#[derive(Clone, Serialize, Deserialize)]
pub struct Case {
    /// the base program; for the site kinds it contains the marker (`Stmt::Raw` / `EKind::Raw`)
    pub prog: Program,
    pub spec: Spec,
    /// the planted program is an imported module (`/p/lib.sy`), main only calls `lib.start()`
    pub lib: bool,
    pub place: Place,
    /// the known-finding avoidance switch was on when the case was generated
    pub avoid: bool,
    /// the violating source, for human readers of replay files (re-rendered on evaluation)
    #[serde(default)]
    pub source: String,
}

// ------------------------------------------------------------------------------------------------ generation

const FIELD_NAMES: &[&str] = &["a", "b", "c", "x", "y", "id", "val", "len", "pos", "name", "w", "h", "kind", "tag", "n", "k"];
const VARIANT_NAMES: &[&str] = &["Zaa", "Zab", "Zok", "Zerr", "Zlo", "Zhi", "Zmid", "Znone", "Zsome", "Zleaf"];

fn scalar(t: &mut Tape) -> Ty {
    match t.weighted(&[30, 15, 15, 12]) {
        0 => Ty::Int,
        1 => Ty::Float,
        2 => Ty::Str,
        _ => Ty::Bool,
    }
}

fn small_tuple(t: &mut Tape) -> Ty {
    let n = 1 + t.below(3);
    Ty::Tuple((0..n).map(|_| scalar(t)).collect())
}

fn field_ty(t: &mut Tape) -> Ty {
    match t.weighted(&[60, 20, 12, 8]) {
        0 => scalar(t),
        1 => small_tuple(t),
        2 => Ty::List(Box::new(scalar(t))),
        _ => Ty::Tuple(vec![Ty::Tuple(vec![scalar(t), scalar(t)]), scalar(t)]),
    }
}

fn pick_names(t: &mut Tape, pool: &[&str], n: usize) -> Vec<String> {
    let mut rest: Vec<&str> = pool.to_vec();
    let mut out = Vec::new();
    for _ in 0..n.min(pool.len()) {
        let i = t.below(rest.len());
        out.push(rest.remove(i).to_string());
    }
    out
}

fn gen_decls(t: &mut Tape, kind: Kind) -> Decls {
    let force_generic = kind == Kind::IndexGenericField;
    // blob 1
    let nf = 1 + t.below(6);
    let generic = t.chance(2, 5) || force_generic;
    let names = pick_names(t, FIELD_NAMES, nf);
    let mut fields: Vec<(String, FTy)> = names.into_iter().map(|n| (n, FTy::T(field_ty(t)))).collect();
    if generic {
        let i = t.below(fields.len());
        fields[i].1 = FTy::Param;
        if fields.len() > 1 && t.chance(1, 4) {
            let j = t.below(fields.len());
            fields[j].1 = FTy::Param;
        }
    }
    let blob = BlobD { name: "Zb".into(), generic, fields, emit: true, multiline: t.chance(1, 3) };
    // blob 2: always has `zq`, which blob 1 never has
    let nf2 = t.below(3);
    let mut fields2: Vec<(String, FTy)> = pick_names(t, FIELD_NAMES, nf2).into_iter().map(|n| (n, FTy::T(scalar(t)))).collect();
    let at = t.below(fields2.len() + 1);
    fields2.insert(at, ("zq".to_string(), FTy::T(Ty::Int)));
    let blob2 = BlobD { name: "Zc".into(), generic: false, fields: fields2, emit: true, multiline: false };
    // enum
    let mut nv = 1 + t.below(6);
    if matches!(kind, Kind::TotalMissing | Kind::TotalMissingExtra) && nv < 2 {
        nv = 2;
    }
    let egeneric = t.chance(2, 5);
    let vnames = pick_names(t, VARIANT_NAMES, nv);
    let mut variants: Vec<(String, Option<FTy>)> =
        vnames.into_iter().map(|n| (n, if t.chance(3, 5) { Some(FTy::T(field_ty(t))) } else { None })).collect();
    if egeneric {
        let i = t.below(variants.len());
        variants[i].1 = Some(FTy::Param);
    }
    let en = EnumD { name: "Ze".into(), generic: egeneric, variants, emit: true };
    let targ = if force_generic || t.chance(2, 5) { small_tuple(t) } else { scalar(t) };
    Decls { blob, blob2, en, targ, other_variant: "Just".into() }
}

fn plain_ty(t: &Ty, depth: usize) -> bool {
    match t {
        Ty::Int | Ty::Float | Ty::Str | Ty::Bool => true,
        Ty::Tuple(ts) => depth < 3 && !ts.is_empty() && ts.iter().all(|x| plain_ty(x, depth + 1)),
        Ty::List(x) => depth < 3 && plain_ty(x, depth + 1),
        _ => false,
    }
}

fn stmt_site_ok(kind: Kind, c: &Ctx) -> bool {
    match kind {
        Kind::BreakNoLoop | Kind::ContinueNoLoop => !c.in_loop && !c.in_outer_loop_only,
        Kind::ExitInClosureBaseLoop => c.in_outer_loop_only && !c.in_loop,
        Kind::ClosureExitInBaseLoop => c.in_loop,
        k if k.impure_only() => !c.in_pure,
        _ => true,
    }
}

fn place_of(p: &Program, c: &Ctx) -> Place {
    let fn_use = if c.placement == Placement::GlobalInit || !matches!(p.globals.iter().find(|g| g.var == c.global).map(|g| &g.value.kind), Some(EKind::Lambda(_))) {
        "global-init"
    } else if c.global_is_start {
        "start"
    } else if plant::global_is_used(p, c.global) {
        "used-fn"
    } else {
        "unused-fn"
    };
    Place {
        placement: format!("{:?}", c.placement),
        closure_depth: c.closure_depth,
        in_pure: c.in_pure,
        in_loop: c.in_loop,
        in_outer_loop_only: c.in_outer_loop_only,
        fn_use: fn_use.to_string(),
    }
}

fn scope_tuple(p: &Program, c: &Ctx) -> Option<(String, usize)> {
    for v in c.scope.iter().rev() {
        let info = p.var(*v);
        if info.kind == VarKind::SelfVar || info.mutable {
            continue;
        }
        if let Ty::Tuple(ts) = &info.ty {
            if !ts.is_empty() {
                return Some((info.name.clone(), ts.len()));
            }
        }
    }
    None
}

/// pick a site: first a placement class (uniformly among the classes present), then a site of that class
fn pick_site<T>(sites: &[(usize, T)], class_of: impl Fn(&T) -> Placement, class_sel: u8, site_sel: usize) -> Option<usize> {
    if sites.is_empty() {
        return None;
    }
    let mut classes: Vec<Placement> = Vec::new();
    for (_, s) in sites {
        let c = class_of(s);
        if !classes.contains(&c) {
            classes.push(c);
        }
    }
    classes.sort();
    let cls = classes[(class_sel as usize * classes.len()) >> 8];
    let of_class: Vec<usize> = sites.iter().filter(|(_, s)| class_of(s) == cls).map(|(i, _)| *i).collect();
    Some(of_class[(site_sel * of_class.len()) >> 16])
}

impl C05 {
    fn gen_case(&self, t: &mut Tape, tier: Tier) -> Case {
        // 20 % of the budget runs with the known-finding avoidance switch off (closure-in-loop kinds)
        let raw = t.chance(1, 5) && std::env::var("C05_AVOID_ALL").is_err();
        let only = std::env::var("C05_ONLY").ok();
        let mut kinds: Vec<Kind> = ALL_KINDS
            .iter()
            .copied()
            .filter(|k| raw || !k.closure_in_loop())
            .filter(|k| only.as_ref().map(|o| o.split(',').any(|p| k.name().starts_with(p))).unwrap_or(true))
            .collect();
        if kinds.contains(&Kind::ExitInClosureBaseLoop) {
            // only about half of the generated programs offer a closure inside a loop: draw this kind twice as often
            kinds.push(Kind::ExitInClosureBaseLoop);
        }
        let mut kind = if kinds.is_empty() { Kind::MissingField } else { *t.pick(&kinds) };
        let mut bytes = vec![0u8; 16];
        for b in bytes.iter_mut() {
            *b = t.byte();
        }
        let want_expr = t.chance(1, 3);
        let lib = t.chance(1, 6);
        let class_sel = t.byte();
        let site_sel = ((t.byte() as usize) << 8) | t.byte() as usize;
        let use_base_blob = t.chance(1, 5);
        let use_base_enum = t.chance(1, 5);
        let mut decls = gen_decls(t, kind);
        let mut cfg = GenCfg::core(tier == Tier::Thorough);
        if kind == Kind::ExitInClosureBaseLoop {
            // needs a closure inside a loop in the generated program: raise the weight of the closure scenarios
            cfg.scenario_weight = 10;
        }
        let base = Gen::new(t, cfg).program();

        // sometimes the target declaration is one of the generated program's own blobs / enums
        if use_base_blob && kind != Kind::IndexGenericField {
            if let Some(b) = base.blobs.iter().find(|b| !b.fields.is_empty() && b.fields.iter().all(|f| plain_ty(&f.ty, 0))) {
                decls.blob = BlobD {
                    name: b.name.clone(),
                    generic: false,
                    fields: b.fields.iter().map(|f| (f.name.clone(), FTy::T(f.ty.clone()))).collect(),
                    emit: false,
                    multiline: false,
                };
            }
        }
        if let Some(e) = base.enums.first() {
            decls.other_variant = e.variants[0].name.clone();
        }
        if use_base_enum {
            let need = if matches!(kind, Kind::TotalMissing | Kind::TotalMissingExtra) { 2 } else { 1 };
            if let Some(e) = base
                .enums
                .iter()
                .find(|e| e.variants.len() >= need && e.variants.iter().all(|v| v.payload.as_ref().map(|t| plain_ty(t, 0)).unwrap_or(true)))
            {
                decls.en = EnumD {
                    name: e.name.clone(),
                    generic: false,
                    variants: e.variants.iter().map(|v| (v.name.clone(), v.payload.clone().map(FTy::T))).collect(),
                    emit: false,
                };
                decls.other_variant = "Just".into();
            }
        }

        let mut spec = Spec { kind, bytes, decls, pure: false, expr_site: None, scope_tuple: None };
        if kind.is_entry() {
            let place = Place { placement: "Program".into(), closure_depth: 0, in_pure: false, in_loop: false, in_outer_loop_only: false, fn_use: "program".into() };
            let mut case = Case { prog: base, spec, lib: false, place, avoid: !raw, source: String::new() };
            case.source = build(&case).map(|b| b.bad.files.values().cloned().collect::<Vec<_>>().join("\n// ---- next file ----\n")).unwrap_or_default();
            return case;
        }

        let (ss, es) = plant::sites(&base);
        // kinds that need a loop context the program does not offer fall back to the planted loop
        let mut stmt_sites: Vec<(usize, &plant::StmtSite)> = ss.iter().enumerate().filter(|(_, s)| stmt_site_ok(kind, &s.ctx)).collect();
        if stmt_sites.is_empty() {
            kind = if kind.closure_in_loop() { Kind::ExitInOwnClosure } else { Kind::MissingField };
            spec.kind = kind;
            stmt_sites = ss.iter().enumerate().filter(|(_, s)| stmt_site_ok(kind, &s.ctx)).collect();
        }
        let expr_sites: Vec<(usize, &plant::ExprSite)> = if want_expr && !kind.is_loop() && !kind.impure_only() && core_is_expr(&spec) {
            es.iter().enumerate().filter(|(_, s)| plain_ty(&s.ty, 0)).collect()
        } else {
            Vec::new()
        };
        let (prog, place) = if let Some(i) = pick_site(&expr_sites, |s| s.ctx.placement, class_sel, site_sel) {
            let s = &es[i];
            spec.pure = s.ctx.in_pure;
            spec.expr_site = Some(s.ty.clone());
            spec.scope_tuple = scope_tuple(&base, &s.ctx);
            (plant::replace_expr(&base, i, Expr { ty: s.ty.clone(), kind: EKind::Raw(MARK.to_string()) }), place_of(&base, &s.ctx))
        } else if let Some(i) = pick_site(&stmt_sites, |s| s.ctx.placement, class_sel, site_sel) {
            let s = &ss[i];
            spec.pure = s.ctx.in_pure;
            spec.scope_tuple = scope_tuple(&base, &s.ctx);
            (plant::insert_stmt(&base, i, Stmt::Raw(MARK.to_string())), place_of(&base, &s.ctx))
        } else {
            // a program without any statement site cannot happen (start has a body); keep the generator total
            spec.kind = Kind::NoStart;
            let place = Place { placement: "Program".into(), closure_depth: 0, in_pure: false, in_loop: false, in_outer_loop_only: false, fn_use: "program".into() };
            (base, place)
        };
        let mut case = Case { prog, spec, lib, place, avoid: !raw, source: String::new() };
        case.source = build(&case).map(|b| b.bad.files.values().cloned().collect::<Vec<_>>().join("\n// ---- next file ----\n")).unwrap_or_default();
        case
    }
}

// ------------------------------------------------------------------------------------------------ building

pub struct Built {
    pub base: Project,
    pub ok: Project,
    pub bad: Project,
    pub deferred: bool,
    pub own_closure: bool,
    pub form: String,
}

fn project(text: String, lib: bool) -> Project {
    if lib {
        let mut files = BTreeMap::new();
        files.insert("/p/lib.sy".to_string(), text);
        files.insert("/p/main.sy".to_string(), LIB_MAIN.to_string());
        Project { files, main: "/p/main.sy".into(), std: true, require: None }
    } else {
        Project::single(text)
    }
}

/// replace the marker line by `lines` (each indented like the marker line); None = marker not found
fn splice_stmt(text: &str, lines: Option<&str>) -> Option<String> {
    let mut out = String::with_capacity(text.len() + 256);
    let mut found = 0;
    for l in text.lines() {
        if l.trim() == MARK {
            found += 1;
            if let Some(ls) = lines {
                let ind = &l[..l.len() - l.trim_start().len()];
                for x in ls.lines() {
                    out.push_str(ind);
                    out.push_str(x);
                    out.push('\n');
                }
            }
        } else {
            out.push_str(l);
            out.push('\n');
        }
    }
    if found == 1 {
        Some(out)
    } else {
        None
    }
}

fn splice_expr(text: &str, x: &str) -> Option<String> {
    if text.matches(MARK).count() == 1 {
        Some(text.replace(MARK, x))
    } else {
        None
    }
}

pub fn build(case: &Case) -> Result<Built, String> {
    let plan = SurfacePlan::default();
    let spec = &case.spec;
    if spec.kind.is_entry() {
        let original = render(&case.prog, &plan).text;
        let start = case.prog.globals.iter().map(|g| g.var).find(|v| case.prog.var(*v).name == "start").ok_or("no-start-in-base")?;
        let mut names = vec![String::new(); case.prog.vars.len()];
        names[start as usize] = "zzstart".to_string();
        let mut renamed_plan = plan.clone();
        renamed_plan.names = Some(names);
        let renamed = render(&case.prog, &renamed_plan).text;
        let mk = |good: bool| -> (Project, String) {
            let e = render_entry(spec, good);
            if e.two_file {
                let mut files = BTreeMap::new();
                files.insert("/p/lib.sy".to_string(), original.clone());
                files.insert("/p/main.sy".to_string(), e.text);
                (Project { files, main: "/p/main.sy".into(), std: true, require: None }, e.form)
            } else {
                (Project::single(format!("{}{}", renamed, e.text)), e.form)
            }
        };
        let (ok, _) = mk(true);
        let (bad, form) = mk(false);
        return Ok(Built { base: Project::single(original), ok, bad, deferred: false, own_closure: false, form });
    }
    let text = render(&case.prog, &plan).text;
    let good = cat::render(spec, true);
    let evil = cat::render(spec, false);
    let (base, ok, bad) = match &spec.expr_site {
        None => (
            splice_stmt(&text, None).ok_or("marker-lost")?,
            splice_stmt(&text, Some(&good.site)).ok_or("marker-lost")?,
            splice_stmt(&text, Some(&evil.site)).ok_or("marker-lost")?,
        ),
        Some(_) => (
            splice_expr(&text, &site_literal(spec)).ok_or("marker-lost")?,
            splice_expr(&text, &good.site).ok_or("marker-lost")?,
            splice_expr(&text, &evil.site).ok_or("marker-lost")?,
        ),
    };
    Ok(Built {
        base: project(base, case.lib),
        ok: project(format!("{}{}", good.prelude, ok), case.lib),
        bad: project(format!("{}{}", evil.prelude, bad), case.lib),
        deferred: evil.deferred,
        own_closure: evil.own_closure,
        form: evil.form,
    })
}

fn all_sources(p: &Project) -> String {
    if p.files.len() == 1 {
        return p.main_src().to_string();
    }
    p.files.iter().map(|(k, v)| format!("// ---- {} ----\n{}", k, v)).collect::<Vec<_>>().join("\n")
}

fn dump(what: &str, kind: Kind, p: &Project, out: &Outcome) {
    if let Ok(d) = std::env::var("C05_DUMP") {
        let _ = std::fs::create_dir_all(&d);
        let src = all_sources(p);
        let _ = std::fs::write(format!("{}/{}_{}_{:x}.sy", d, what, kind.name(), vcore::hash64(&src)), format!("// {}\n{}", out.short(), src));
    }
}

// ------------------------------------------------------------------------------------------------ the check

impl Check for C05 {
    type Case = Case;
    fn id(&self) -> &'static str {
        "C05"
    }

    fn generate(&self, u: &mut Unstructured, tier: Tier) -> Option<Case> {
        let mut t = Tape::new(u);
        Some(self.gen_case(&mut t, tier))
    }

    fn evaluate(&self, case: &Case, labels: &mut Labels) -> Verdict {
        let kind = case.spec.kind;
        let b = match build(case) {
            Ok(b) => b,
            Err(e) => return Verdict::Discard(e),
        };
        let placement = if case.lib { format!("{}+lib", case.place.placement) } else { case.place.placement.clone() };
        labels.add(format!("kind:{}", kind.name()));
        labels.add(if case.avoid { "avoid:on" } else { "avoid:off" });

        // 1. the legal twin must be accepted (else the planted construct is not the only difference: discard) and
        //    its Lua must load. The unplanted program is compiled only when the twin fails, to attribute the failure.
        let base_state = |b: &Built| -> Result<(), Verdict> {
            let base_out = compile(&b.base);
            match &base_out {
                Outcome::Accepted(l) => {
                    if minilua::load(l).is_err() {
                        Err(Verdict::Discard("base-unloadable".into()))
                    } else {
                        Ok(())
                    }
                }
                Outcome::Rejected { .. } => {
                    dump("base", kind, &b.base, &base_out);
                    Err(Verdict::Discard("base-rejected".into()))
                }
                Outcome::Panicked { .. } => Err(Verdict::Discard("base-compiler-panicked".into())),
            }
        };
        let ok_out = compile(&b.ok);
        match &ok_out {
            Outcome::Accepted(lua) => match minilua::load(lua) {
                Ok(chunk) => {
                    let st = minilua::load_stats(&chunk);
                    if st.max_register_estimate >= 230 || st.max_c_levels >= 185 {
                        return Verdict::Discard("twin-load-grey-zone".into());
                    }
                }
                Err(e) => {
                    if let Err(v) = base_state(&b) {
                        return v;
                    }
                    return Verdict::Violation {
                        signature: format!("C05/twin-load/{}/{}", e.class, kind.group()),
                        detail: format!(
                            "the legal twin of a planted `{}` violation compiles, but the emitted chunk does not load: {} (chunk line {}); the unplanted \
                             program loads\nplacement: {} form: {}\n--- source (legal twin) ---\n{}",
                            kind.name(),
                            e.msg,
                            e.line,
                            placement,
                            b.form,
                            all_sources(&b.ok)
                        ),
                    };
                }
            },
            Outcome::Rejected { errors, .. } => {
                if let Err(v) = base_state(&b) {
                    return v;
                }
                labels.add(format!("twin-rejected:{}:{}", kind.name(), errors.first().map(|e| e.sub.clone()).unwrap_or_default()));
                dump("twin", kind, &b.ok, &ok_out);
                return Verdict::Discard("twin-rejected".into());
            }
            Outcome::Panicked { .. } => return Verdict::Discard("twin-compiler-panicked".into()),
        }

        // classification of the decided case
        labels.add(format!("decided:{}", kind.name()));
        labels.add(format!("group:{}", kind.group()));
        labels.add(format!("cell:{}:{}", kind.name(), placement));
        labels.add(format!("placement:{}", placement));
        labels.add(format!("form:{}:{}", kind.name(), b.form));
        labels.add(format!("fn-use:{}", case.place.fn_use));
        labels.add(format!("shape:{}", if kind.is_entry() { "program" } else if case.spec.expr_site.is_some() { "expression" } else { "statement" }));
        labels.add(format!("closure-depth:{}", case.place.closure_depth.min(3)));
        if case.place.in_pure {
            labels.add("site-in-pure-fn");
        }
        if case.place.in_loop {
            labels.add("site-in-loop");
        }
        if case.lib {
            labels.add("imported-module");
        }
        let d = &case.spec.decls;
        if (d.blob.emit && d.blob.generic) || (d.en.emit && d.en.generic) {
            labels.add("generic-declaration");
        }
        let target_generic = match kind.group() {
            "unknown-variant" | "non-total-case" => Some(d.en.generic),
            "blob-missing-field" | "blob-unknown-field" | "unknown-field-access" | "externblob-instance" => Some(d.blob.generic),
            _ => None,
        };
        if target_generic == Some(true) {
            labels.add(format!("generic-target:{}", kind.group()));
        }
        if !d.blob.emit || !d.en.emit {
            labels.add("target-declared-by-generated-program");
        }
        if b.deferred {
            labels.add("deferred-constraint");
        }
        if b.own_closure {
            labels.add("planted-closure");
        }
        let nontrivial = b.deferred || b.own_closure || case.place.closure_depth >= 1;

        // 3. the violation must be rejected, with an error, without output
        let bad_out = compile(&b.bad);
        if std::env::var("C05_DUMP_ALL").is_ok() {
            dump("bad", kind, &b.bad, &bad_out);
        }
        match &bad_out {
            Outcome::Rejected { errors, bytes_written } => {
                if errors.is_empty() {
                    return Verdict::Violation {
                        signature: "C05/rejected-without-error".into(),
                        detail: format!("compile returned Err with an empty error list\n--- source ---\n{}", all_sources(&b.bad)),
                    };
                }
                if *bytes_written != 0 {
                    return Verdict::Violation {
                        signature: format!("C05/output-on-rejection/{}", kind.group()),
                        detail: format!(
                            "the program was rejected ({}) but {} bytes of Lua had been written\n--- source ---\n{}",
                            bad_out.short(),
                            bytes_written,
                            all_sources(&b.bad)
                        ),
                    };
                }
                let e = &errors[0];
                let reason = if e.kind == "Type" { e.sub.clone() } else { e.kind.clone() };
                labels.add(format!("reject:{}:{}", kind.group(), reason));
                if !kind.expected_reasons().contains(&reason.as_str()) {
                    labels.add("rejected-for-another-reason");
                    labels.add(format!("other-reason-group:{}", kind.group()));
                    labels.add(format!("other-reason:{}:{}", kind.name(), reason));
                    dump("reason", kind, &b.bad, &bad_out);
                    return Verdict::Pass { nontrivial: false };
                }
                Verdict::Pass { nontrivial }
            }
            Outcome::Accepted(lua) => {
                let load = match minilua::load(lua) {
                    Ok(_) => "the emitted chunk loads".to_string(),
                    Err(e) => format!("the emitted chunk does not load: {} [{}] (chunk line {})", e.msg, e.class, e.line),
                };
                // the access path is part of the signature where it is a root cause of its own
                let path = if b.form.starts_with("nested-blob-declared-later") { "/through-field-of-blob-declared-later" } else { "" };
                Verdict::Violation {
                    signature: format!("C05/accepted/{}{}", kind.group(), path),
                    detail: format!(
                        "a program with a planted `{}` violation was accepted ({} bytes of Lua); {}\nplacement: {} (closure depth {}, fn: {}) form: {}\n\
                         the legal twin is accepted as well, the unplanted program too\n--- source ---\n{}",
                        kind.name(),
                        lua.len(),
                        load,
                        placement,
                        case.place.closure_depth,
                        case.place.fn_use,
                        b.form,
                        all_sources(&b.bad)
                    ),
                }
            }
            Outcome::Panicked { message, location, .. } => Verdict::Violation {
                signature: format!("C05/panic/{}", location),
                detail: format!(
                    "the compiler panicked instead of rejecting a planted `{}` violation: {} at {}\n--- source ---\n{}",
                    kind.name(),
                    vcore::first_line(message),
                    location,
                    all_sources(&b.bad)
                ),
            },
        }
    }

    fn simplify_at(&self, case: &Case, idx: usize) -> Step<Case> {
        let finish = |mut c: Case| -> Step<Case> {
            match build(&c) {
                Ok(b) => {
                    c.source = all_sources(&b.bad);
                    Step::Candidate(c)
                }
                Err(_) => Step::Skip,
            }
        };
        match idx {
            0 => {
                if case.spec.bytes.iter().all(|b| *b == 0) {
                    return Step::Skip;
                }
                let mut c = case.clone();
                c.spec.bytes = vec![0; c.spec.bytes.len()];
                finish(c)
            }
            1 => {
                if !case.lib {
                    return Step::Skip;
                }
                let mut c = case.clone();
                c.lib = false;
                finish(c)
            }
            2 => {
                // smallest declarations
                let mut c = case.clone();
                let d = &mut c.spec.decls;
                if d.blob.emit && d.blob.fields.len() > 1 {
                    d.blob.fields.truncate(1);
                    d.blob.generic = d.blob.fields[0].1 == FTy::Param;
                } else if d.en.emit && d.en.variants.len() > 2 {
                    d.en.variants.truncate(2);
                    d.en.generic = d.en.variants.iter().any(|v| v.1 == Some(FTy::Param));
                } else {
                    return Step::Skip;
                }
                finish(c)
            }
            3 | 4 | 5 => {
                // declarations the plant does not need (a needed one makes the candidate rejected: not kept)
                let mut c = case.clone();
                let d = &mut c.spec.decls;
                let flag = match idx {
                    3 => &mut d.blob.emit,
                    4 => &mut d.blob2.emit,
                    _ => &mut d.en.emit,
                };
                if !*flag {
                    return Step::Skip;
                }
                *flag = false;
                finish(c)
            }
            6 => {
                // one big step first: only the global that holds the marker, and `start`
                let mut c = case.clone();
                let p = &case.prog;
                c.prog.globals.retain(|g| p.var(g.var).name == "start" || serde_json::to_string(&g.value).map(|j| j.contains(MARK)).unwrap_or(true));
                if c.prog.globals.len() == p.globals.len() || !syltmodel::shrink::validate(&c.prog) {
                    return Step::Skip;
                }
                finish(c)
            }
            _ => {
                let pc = ProgCase { prog: case.prog.clone(), plan: SurfacePlan::default(), source: String::new() };
                match shrink_step(&pc, idx - 7) {
                    Step::End => Step::End,
                    Step::Skip => Step::Skip,
                    Step::Candidate(q) => {
                        let mut c = case.clone();
                        c.prog = q.prog;
                        finish(c)
                    }
                }
            }
        }
    }

    fn sample(&self, case: &Case) -> serde_json::Value {
        let src = build(case).map(|b| all_sources(&b.bad)).unwrap_or_default();
        vcore::truncate_value(
            serde_json::json!({ "kind": case.spec.kind.name(), "placement": case.place.placement, "imported_module": case.lib, "violating_source": src }),
            2500,
        )
    }

    fn rule(&self) -> String {
        "cases: generated well-typed base program (GenAST core profile) + generated declarations `Zb :: blob[(*T)] {..}` (1-6 fields), `Zc :: blob {..}`, \
         `Ze :: enum[(*T)] .. end` (1-6 variants) with scalar/tuple/list/nested-tuple/type-parameter field and payload types (in 20 % the target is one of \
         the base program's own blobs/enums) + ONE planted violation out of 38 kinds (blob instantiation with missing / unknown / both fields; unknown field \
         read directly, through an annotated parameter, a returned value, an unannotated parameter (1 and 2 levels, polymorphic second use), an unannotated \
         return, a write, a capturing closure; unknown variant constructed / matched; case without else with missing / extra / both arms, the scrutinee being \
         an annotated or inferred constant, inline, returned, an annotated or an unannotated parameter; tuple index past the end (len, len+1, 255.., 2^32, \
         i64::MAX) directly, through an unannotated parameter, a returned value, nested, through a type parameter; tuple length mismatch in + - * == != < > \
         <= >=, nested, through unannotated parameters, annotated definition, assignment (= += -= *=), annotated parameter, annotated return, list elements; \
         externblob instantiation; break/continue outside any loop, inside a closure inside a loop (closure definition, method of a blob literal, function \
         literal argument, closure in closure); entry point: no start / only a local or field or similarly named start / start only in the imported file / \
         start not a function / with parameters / returning a value, also with a proper start in an imported file) at a generated placement: a statement \
         site (function body, closure, method, if branch, case arm, loop body of the base program; placement class drawn uniformly) optionally wrapped in 1-2 \
         planted closures / ifs / loops, an expression site (global initialiser, argument, operand, field initialiser, condition, definition value, element, \
         return value) via `zzsel(<literal>, <violating expression>)`, in the main file or an imported module. Every case is rendered twice from the same \
         choices: violation and legal twin. oracle: unplanted program accepted and loadable (else discard), twin accepted (else discard) and its Lua loads \
         in mini-Lua, violation => Rejected with >= 1 error and 0 bytes written. non-trivial = the violation is reached through a deferred constraint \
         (unannotated parameter / return / type parameter) or sits in a closure (generated or planted); distinct by case hash"
            .into()
    }

    fn assumptions(&self) -> Vec<String> {
        vec![
            "mini-Lua's loader accepts exactly what lua5.3 accepts on the subset the emitter uses (./check selftest)".into(),
            "a program whose main file obtains `start` only through `from lib use start` is not counted as a violation (the property's wording is ambiguous there); it is not generated".into(),
            "`start := fn do end` (mutable) and `start :: pu do end` have type fn -> void and are not violations; not generated as violations".into(),
        ]
    }

    fn health(&self, s: &Stats) -> Result<(), String> {
        if s.evaluations < 1000 || std::env::var("C05_ONLY").is_ok() {
            return Ok(());
        }
        let avoid_all = std::env::var("C05_AVOID_ALL").is_ok();
        let ev = s.evaluations as f64;
        for k in ALL_KINDS {
            if avoid_all && k.closure_in_loop() {
                continue;
            }
            let n = s.label(&format!("decided:{}", k.name()));
            if n < 3 {
                return Err(format!("violation kind {} was decided only {} times", k.name(), n));
            }
        }
        let discards: u64 = s.discards.values().sum();
        if discards as f64 > 0.30 * ev {
            return Err(format!("{} of {} cases discarded: {:?}", discards, s.evaluations, s.discards));
        }
        if s.discard("twin-rejected") as f64 > 0.15 * ev {
            return Err(format!("the legal twin was rejected in {} of {} cases", s.discard("twin-rejected"), s.evaluations));
        }
        let decided: u64 = ALL_KINDS.iter().map(|k| s.label(&format!("decided:{}", k.name()))).sum();
        if (s.label("generic-declaration") as f64) < 0.15 * decided as f64 {
            return Err(format!("generic declarations in only {} of {} decided cases", s.label("generic-declaration"), decided));
        }
        if s.label("rejected-for-another-reason") as f64 > 0.05 * decided as f64 {
            return Err(format!("{} of {} violations were rejected for a reason other than the planted one", s.label("rejected-for-another-reason"), decided));
        }
        let mut groups: Vec<&str> = ALL_KINDS.iter().map(|k| k.group()).collect();
        groups.sort();
        groups.dedup();
        for g in groups {
            let n = s.label(&format!("group:{}", g));
            let other = s.label(&format!("other-reason-group:{}", g));
            if n > 0 && other * 2 >= n {
                return Err(format!(
                    "{} of {} `{}` violations were rejected, but for a reason other than the planted one (see the other-reason:* labels): the check \
                     does not exercise that rule any more",
                    other, n, g
                ));
            }
        }
        for p in ["FnBody", "Closure", "Method", "Branch", "CaseArm", "LoopBody", "Program"] {
            if (s.label(&format!("placement:{}", p)) as f64) < 0.01 * decided as f64 {
                return Err(format!("placement {} is (nearly) absent: {} of {}", p, s.label(&format!("placement:{}", p)), decided));
            }
        }
        for l in ["shape:expression", "imported-module", "deferred-constraint", "planted-closure", "site-in-pure-fn"] {
            if (s.label(l) as f64) < 0.03 * decided as f64 {
                return Err(format!("class {} is (nearly) absent: {} of {}", l, s.label(l), decided));
            }
        }
        if (s.nontrivial as f64) < 0.2 * ev {
            return Err(format!("only {} of {} cases are non-trivial", s.nontrivial, s.evaluations));
        }
        Ok(())
    }
}
