//! svcheck: one binary, one sub-command per property (`svcheck C01 quick`, `svcheck C01 --replay F`).

use checks::*;
use vcore::main_entry;

fn main() {
    let args: Vec<String> = std::env::args().skip(1).collect();
    if args.is_empty() {
        eprintln!("usage: svcheck <C01..C20|selftest> <quick|thorough> [--replay FILE]");
        std::process::exit(2);
    }
    let id = args[0].clone();
    let rest = &args[1..];
    let code = match id.as_str() {
        "selftest" => selftest::run(),
        #[cfg(feature = "c01")]
        "C01" => main_entry(&c01::CHECK, c01::plan, rest),
        #[cfg(feature = "c02")]
        "C02" => main_entry(&c02::CHECK, c02::plan, rest),
        #[cfg(feature = "c03")]
        "C03" => main_entry(&c03::CHECK, c03::plan, rest),
        #[cfg(feature = "c04")]
        "C04" => main_entry(&c04::CHECK, c04::plan, rest),
        #[cfg(feature = "c05")]
        "C05" => main_entry(&c05::CHECK, c05::plan, rest),
        #[cfg(feature = "c06")]
        "C06" => main_entry(&c06::CHECK, c06::plan, rest),
        #[cfg(feature = "c07")]
        "C07" => main_entry(&c07::CHECK, c07::plan, rest),
        #[cfg(feature = "c08")]
        "C08" => main_entry(&c08::CHECK, c08::plan, rest),
        #[cfg(feature = "c09")]
        "C09" => main_entry(&c09::CHECK, c09::plan, rest),
        #[cfg(feature = "c10")]
        "C10" => main_entry(&c10::CHECK, c10::plan, rest),
        #[cfg(feature = "c11")]
        "C11" => main_entry(&c11::CHECK, c11::plan, rest),
        #[cfg(feature = "c12")]
        "C12" => main_entry(&c12::CHECK, c12::plan, rest),
        #[cfg(feature = "c13")]
        "C13" => main_entry(&c13::CHECK, c13::plan, rest),
        #[cfg(feature = "c14")]
        "C14" => main_entry(&c14::CHECK, c14::plan, rest),
        #[cfg(feature = "c15")]
        "C15" => main_entry(&c15::CHECK, c15::plan, rest),
        #[cfg(feature = "c16")]
        "C16" => main_entry(&c16::CHECK, c16::plan, rest),
        #[cfg(feature = "c17")]
        "C17" => main_entry(&c17::CHECK, c17::plan, rest),
        #[cfg(feature = "c18")]
        "C18" => main_entry(&c18::CHECK, c18::plan, rest),
        #[cfg(feature = "c19")]
        "C19" => main_entry(&c19::CHECK, c19::plan, rest),
        #[cfg(feature = "c20")]
        "C20" => main_entry(&c20::CHECK, c20::plan, rest),
        other => {
            println!("INFRA: no check registered for {}", other);
            2
        }
    };
    std::process::exit(code);
}
