//! svcheck: one binary, one sub-command per property (`svcheck C01 quick`, `svcheck C01 --replay F`).
mod c01;
mod c02;
mod c03;
mod c04;
mod c05;
mod c06;
mod c07;
mod c08;
mod c09;
mod c10;
mod c11;
mod c12;
mod c13;
mod c14;
mod c15;
mod c16;
mod c17;
mod c18;
mod c19;
mod c20;
mod common;
mod selftest;

use vcore::main_entry;

fn main() {
    let args: Vec<String> = std::env::args().skip(1).collect();
    if args.is_empty() {
        eprintln!("usage: svcheck <C01..C20|selftest> <quick|thorough> [--replay FILE]");
        std::process::exit(2);
    }
    let id = args[0].clone();
    let rest = &args[1..];
    let code = match id.as_str() {
        "selftest" => selftest::run(),
        "C01" => main_entry(&c01::CHECK, c01::plan, rest),
        "C02" => main_entry(&c02::CHECK, c02::plan, rest),
        "C03" => main_entry(&c03::CHECK, c03::plan, rest),
        "C04" => main_entry(&c04::CHECK, c04::plan, rest),
        "C05" => main_entry(&c05::CHECK, c05::plan, rest),
        "C06" => main_entry(&c06::CHECK, c06::plan, rest),
        "C07" => main_entry(&c07::CHECK, c07::plan, rest),
        "C08" => main_entry(&c08::CHECK, c08::plan, rest),
        "C09" => main_entry(&c09::CHECK, c09::plan, rest),
        "C10" => main_entry(&c10::CHECK, c10::plan, rest),
        "C11" => main_entry(&c11::CHECK, c11::plan, rest),
        "C12" => main_entry(&c12::CHECK, c12::plan, rest),
        "C13" => main_entry(&c13::CHECK, c13::plan, rest),
        "C14" => main_entry(&c14::CHECK, c14::plan, rest),
        "C15" => main_entry(&c15::CHECK, c15::plan, rest),
        "C16" => main_entry(&c16::CHECK, c16::plan, rest),
        "C17" => main_entry(&c17::CHECK, c17::plan, rest),
        "C18" => main_entry(&c18::CHECK, c18::plan, rest),
        "C19" => main_entry(&c19::CHECK, c19::plan, rest),
        "C20" => main_entry(&c20::CHECK, c20::plan, rest),
        other => {
            println!("INFRA: no check registered for {}", other);
            2
        }
    };
    std::process::exit(code);
}
