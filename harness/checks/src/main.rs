//! svcheck: one binary, one sub-command per property (`svcheck C01 quick`, `svcheck C01 --replay F`).
mod c01;
mod c07;
mod common;
mod selftest;

use vcore::{main_entry, Plan, Tier};

fn main() {
    let args: Vec<String> = std::env::args().skip(1).collect();
    if args.is_empty() {
        eprintln!("usage: svcheck <C01..C20|selftest> <quick|thorough> [--replay FILE]");
        std::process::exit(2);
    }
    let id = args[0].clone();
    let rest = &args[1..];
    let code = match id.as_str() {
        "selftest" => selftest::run(),
        "C01" => main_entry(&c01::C01, |t: Tier| Plan::new(t.pick(6_000, 400_000), t.pick(2600, 4000)), rest),
        "C07" => main_entry(&c07::C07, |t: Tier| Plan::new(t.pick(20_000, 400_000), t.pick(2600, 4000)), rest),
        other => {
            println!("INFRA: no check registered for {}", other);
            2
        }
    };
    std::process::exit(code);
}
