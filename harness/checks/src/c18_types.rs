//! C18 helper: values, types, operations of a container history and their Sylt / runtime spellings.
use serde::{Deserialize, Serialize};

#[derive(Clone, Debug, PartialEq, Eq, Serialize, Deserialize)]
pub enum Ty {
    Int,
    Str,
    Bool,
    Tup(Vec<Ty>),
}

#[derive(Clone, Debug, PartialEq, Eq, PartialOrd, Ord, Serialize, Deserialize)]
pub enum Val {
    Int(i64),
    Str(String),
    Bool(bool),
    Tup(Vec<Val>),
}

impl Val {
    /// how the runtime prints the value (`print` / `as_str`)
    pub fn show(&self) -> String {
        match self {
            Val::Int(i) => format!("{}", i),
            Val::Str(s) => s.clone(),
            Val::Bool(b) => format!("{}", b),
            Val::Tup(xs) => {
                let inner: Vec<String> = xs.iter().map(|x| x.show()).collect();
                if xs.len() == 1 {
                    format!("({},)", inner[0])
                } else {
                    format!("({})", inner.join(", "))
                }
            }
        }
    }
    /// the value written in Sylt source
    pub fn lit(&self) -> String {
        match self {
            Val::Int(i) => format!("{}", i),
            Val::Str(s) => format!("\"{}\"", s),
            Val::Bool(b) => format!("{}", b),
            Val::Tup(xs) => {
                let inner: Vec<String> = xs.iter().map(|x| x.lit()).collect();
                if xs.len() == 1 {
                    format!("({},)", inner[0])
                } else {
                    format!("({})", inner.join(", "))
                }
            }
        }
    }
    /// literal usable as a variant payload / operand (negative ints parenthesised)
    pub fn lit_atom(&self) -> String {
        match self {
            Val::Int(i) if *i < 0 => format!("({})", i),
            _ => self.lit(),
        }
    }
    pub fn has_type(&self, t: &Ty) -> bool {
        match (self, t) {
            (Val::Int(_), Ty::Int) | (Val::Str(_), Ty::Str) | (Val::Bool(_), Ty::Bool) => true,
            (Val::Tup(xs), Ty::Tup(ts)) => xs.len() == ts.len() && xs.iter().zip(ts).all(|(x, t)| x.has_type(t)),
            _ => false,
        }
    }
}

impl Ty {
    pub fn src(&self) -> String {
        match self {
            Ty::Int => "int".into(),
            Ty::Str => "str".into(),
            Ty::Bool => "bool".into(),
            Ty::Tup(ts) => {
                let inner: Vec<String> = ts.iter().map(|t| t.src()).collect();
                if ts.len() == 1 {
                    format!("({},)", inner[0])
                } else {
                    format!("({})", inner.join(", "))
                }
            }
        }
    }
    pub fn name(&self) -> String {
        match self {
            Ty::Int => "int".into(),
            Ty::Str => "str".into(),
            Ty::Bool => "bool".into(),
            Ty::Tup(ts) => format!("tup-{}", ts.iter().map(|t| t.name()).collect::<Vec<_>>().join("-")),
        }
    }
    pub fn zero(&self) -> Val {
        match self {
            Ty::Int => Val::Int(0),
            Ty::Str => Val::Str(String::new()),
            Ty::Bool => Val::Bool(false),
            Ty::Tup(ts) => Val::Tup(ts.iter().map(|t| t.zero()).collect()),
        }
    }
}

pub fn show_list(xs: &[Val]) -> String {
    format!("[{}]", xs.iter().map(|x| x.show()).collect::<Vec<_>>().join(", "))
}
pub fn lit_list(xs: &[Val]) -> String {
    format!("[{}]", xs.iter().map(|x| x.lit()).collect::<Vec<_>>().join(", "))
}
pub fn show_maybe(m: &Option<Val>) -> String {
    match m {
        Some(v) => format!("Just {}", v.show()),
        None => "None nil".into(),
    }
}

#[derive(Clone, Copy, Debug, PartialEq, Eq, Serialize, Deserialize)]
pub enum Kind {
    List,
    Dict,
    Set,
    MaybeMath,
}
impl Kind {
    pub fn name(self) -> &'static str {
        match self {
            Kind::List => "list",
            Kind::Dict => "dict",
            Kind::Set => "set",
            Kind::MaybeMath => "maybemath",
        }
    }
}

/// predicates of `filter` / `find` / `andThen`; `usize` = index into the element universe
#[derive(Clone, Debug, PartialEq, Eq, Serialize, Deserialize)]
pub enum Pred {
    Never,
    Always,
    Eq(usize),
    Ne(usize),
    /// ints only
    Lt(usize),
    /// ints only
    Gt(usize),
    /// tuples only: `x[0] == universe[k][0]`
    FstEq(usize),
    /// `x == universe[k]`, written through other library calls inside the callback:
    /// `list.get([universe[k]], 0) == Maybe.Just x` (re-entrancy of the runtime library)
    EqViaGet(usize),
    /// `x != universe[k]` through `filter([universe[k]], pu y -> y == x) == []`
    NeViaFilter(usize),
    /// `x != universe[k]` through `list.get([universe[k]], 0) != Maybe.Just x`
    NeViaGet(usize),
}

#[derive(Clone, Debug, PartialEq, Eq, Serialize, Deserialize)]
pub enum MapFn {
    Id,
    /// ints: `x + c`; strings: `x + c`
    Add(usize),
    /// `(x, x)`
    Pair,
    /// tuples: `x[0]`
    Fst,
    /// `x == c`
    IsEq(usize),
}

#[derive(Clone, Debug, PartialEq, Eq, Serialize, Deserialize)]
pub enum FoldFn {
    /// `a + 1` from `init`
    Count(i64),
    /// ints: `x + a`
    Sum(i64),
    /// ints: `a - x`
    SubAcc(i64),
    /// ints: `a * 2 + x`
    Poly(i64),
    /// strings: `a + x` from ""
    CatAccItem,
    /// strings: `x + a` from ""
    CatItemAcc,
    /// tuples whose first component is an int: `a + x[0]`
    SumFst(i64),
}

/// a number of the math helpers: an int, or a float given in eighths (exact in binary and decimal)
#[derive(Clone, Copy, Debug, PartialEq, Eq, Serialize, Deserialize)]
pub enum Num {
    I(i64),
    F(i64),
}
impl Num {
    pub fn lit(self) -> String {
        match self {
            Num::I(i) => format!("{}", i),
            Num::F(n) => {
                let a = n.unsigned_abs();
                format!("{}{}.{:03}", if n < 0 { "-" } else { "" }, a / 8, (a % 8) * 125)
            }
        }
    }
    pub fn is_float(self) -> bool {
        matches!(self, Num::F(_))
    }
    pub fn raw(self) -> i64 {
        match self {
            Num::I(i) | Num::F(i) => i,
        }
    }
    pub fn with_raw(self, r: i64) -> Num {
        match self {
            Num::I(_) => Num::I(r),
            Num::F(_) => Num::F(r),
        }
    }
    pub fn zero_lit(self) -> &'static str {
        match self {
            Num::I(_) => "0",
            Num::F(_) => "0.0",
        }
    }
}

#[derive(Clone, Debug, PartialEq, Eq, Serialize, Deserialize)]
pub enum MathOp {
    Min(Num, Num),
    Max(Num, Num),
    Abs(Num),
    Clamp(Num, Num, Num),
    Sign(Num),
    Div(i64, i64),
    Floor(Num),
}

/// where a Maybe value comes from
#[derive(Clone, Debug, PartialEq, Eq, Serialize, Deserialize)]
pub enum MSrc {
    /// `Maybe.Just <universe[k]>` written in source
    SrcJust(usize),
    /// `Maybe.None` written in source
    SrcNone,
    /// `list.get(xs, i)` (library-made)
    LibGet(i64),
    /// `list.find(xs, p)` (library-made)
    LibFind(Pred),
}

#[derive(Clone, Debug, PartialEq, Eq, Serialize, Deserialize)]
pub enum MHelper {
    /// print + compare with the source-written value + isJust/isNone
    Observe,
    OrDefault(usize),
    Map(MapFn),
    /// `andThen(m, pu x -> if p(x) do Maybe.Just x else Maybe.None end)`
    AndThen(Pred),
    /// `flatten(Maybe.Just m)`
    Flatten,
}

#[derive(Clone, Debug, PartialEq, Eq, Serialize, Deserialize)]
pub enum Op {
    // ---- list
    Push(usize),
    Prepend(usize),
    Pop,
    Get(i64),
    Set(i64, usize),
    Map(MapFn),
    Filter(Pred),
    Fold(FoldFn),
    Find(Pred),
    Last,
    // ---- shared
    Len,
    /// list.contains / dict.contains_key / set.contains
    Contains(usize),
    /// dict.remove / set.remove
    Remove(usize),
    // ---- dict
    Update(usize, usize),
    Lookup(usize),
    // ---- set
    Add(usize),
    // ---- maybe + math
    Math(MathOp),
    May(MSrc, MHelper),
}

impl Op {
    pub fn name(&self) -> &'static str {
        match self {
            Op::Push(_) => "push",
            Op::Prepend(_) => "prepend",
            Op::Pop => "pop",
            Op::Get(_) => "get",
            Op::Set(..) => "set",
            Op::Map(_) => "map",
            Op::Filter(_) => "filter",
            Op::Fold(_) => "fold",
            Op::Find(_) => "find",
            Op::Last => "last",
            Op::Len => "len",
            Op::Contains(_) => "contains",
            Op::Remove(_) => "remove",
            Op::Update(..) => "update",
            Op::Lookup(_) => "get",
            Op::Add(_) => "add",
            Op::Math(m) => match m {
                MathOp::Min(..) => "min",
                MathOp::Max(..) => "max",
                MathOp::Abs(_) => "abs",
                MathOp::Clamp(..) => "clamp",
                MathOp::Sign(_) => "sign",
                MathOp::Div(..) => "div",
                MathOp::Floor(_) => "floor",
            },
            Op::May(_, h) => match h {
                MHelper::Observe => "maybe-observe",
                MHelper::OrDefault(_) => "orDefault",
                MHelper::Map(_) => "maybe-map",
                MHelper::AndThen(_) => "andThen",
                MHelper::Flatten => "flatten",
            },
        }
    }
    pub fn mutating(&self) -> bool {
        matches!(self, Op::Push(_) | Op::Prepend(_) | Op::Pop | Op::Set(..) | Op::Remove(_) | Op::Update(..) | Op::Add(_))
    }
}

#[derive(Clone, Copy, Debug, PartialEq, Eq, Serialize, Deserialize)]
pub struct Switches {
    /// keep dict/set key universes free of distinct keys with the same printed text (open findings
    /// C18/dict|set/distinct-keys-with-same-text-collide)
    pub avoid_key_collision: bool,
}
impl Switches {
    pub fn all_on() -> Switches {
        Switches { avoid_key_collision: true }
    }
}

#[derive(Clone, Debug, Serialize, Deserialize)]
pub struct Case {
    pub kind: Kind,
    /// element type (list, set, maybe) / key type (dict)
    pub elem: Ty,
    /// dict value type
    pub vty: Ty,
    /// element / key universe; operations refer to it by index
    pub universe: Vec<Val>,
    /// dict value universe
    pub vals: Vec<Val>,
    /// initial contents (key index, value index)
    pub init: Vec<(usize, usize)>,
    /// dict/set built with from_list (else new())
    pub from_list: bool,
    pub ops: Vec<Op>,
    pub sw: Switches,
    /// rendered program, for human readers of replay files (re-rendered on evaluation)
    #[serde(default)]
    pub source: String,
}
