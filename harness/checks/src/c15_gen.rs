//! C15 generator: line-oriented valid projects + text shapes + one planted local error.
//!
//! Development switches (environment; never set by `./check`): `C15_AVOID=1` forces the avoid switch for the kinds behind
//! open findings (outer-stmt, syntax-eof) on for every case (the run must then be silent; used for the sensitivity
//! experiments), `C15_AVOID=0` forces it off, `C15_KIND=<kind>` plants only that kind.
use super::*;

#[derive(Clone)]
struct FnInfo {
    name: String,
    params: Vec<&'static str>,
    #[allow(dead_code)]
    ret: &'static str,
}
#[derive(Clone)]
struct ConstInfo {
    name: String,
    ty: &'static str,
    mutable: bool,
}
#[derive(Clone, PartialEq)]
enum Style {
    Use,
    UseAs(String),
    From,
}
struct FileGen {
    letter: char,
    /// what follows `use` / `from`
    use_path: String,
    /// the namespace name a plain `use` introduces
    ns: String,
    path: String,
    consts: Vec<ConstInfo>,
    fns: Vec<FnInfo>,
    blobs: Vec<String>,
    enums: Vec<String>,
    /// (target file index, style)
    imports: Vec<(usize, Style)>,
    from_needed: Vec<(usize, String)>,
    pieces: Vec<Piece>,
}

const TYPES: [&str; 4] = ["int", "str", "float", "bool"];

const WORDS: [&str; 14] = ["the", "quick", "brown", "fox", "jumps", "over", "lazy", "dogs", "and", "keeps", "running", "along", "say:\"hi", "it's"];
const NONASCII_COMMENTS: [&str; 6] = [
    "// åäö ÅÄÖ — räksmörgås",
    "// 日本語のコメント、行番号はそのまま",
    "// emoji 😀 🎉 👩‍💻 done",
    "// ñ é ü ß “quoted” … ‘x’ ½ × ÷",
    "// Ωμέγα кириллица עברית العربية",
    "// 𝕊𝕪𝕝𝕥 astral plane 𐍈 and combining a\u{301}e\u{308}",
];
const NONASCII_STRINGS: [&str; 6] = ["åäö", "日本語 😀", "ñandú — über", "Ωμέγα", "emoji 🎉🎉", "a\u{301} ｆｕｌｌ"];
const STRING_FRAGS: [&str; 14] = [
    "",
    "second line",
    "  indented text",
    "// not a comment",
    "x :: 1",
    "end",
    "日本語 😀",
    "tab\there",
    "'quoted' text",
    " <<<<<<< not at line start",
    "if do loop fn",
    "åäö",
    "    ",
    "1 + (2",
];

pub struct G<'t, 'a, 'b> {
    t: &'t mut Tape<'a, 'b>,
    n: usize,
}

fn lit_of(t: &mut Tape, ty: &str) -> String {
    match ty {
        "int" => format!("{}", t.below(90)),
        "str" => (*t.pick(&["\"s\"", "\"\"", "\"hello world\"", "\"a b\"", "\"x1\""])).to_string(),
        "float" => (*t.pick(&["1.5", "0.25", "2.", "10.0"])).to_string(),
        _ => (*t.pick(&["true", "false"])).to_string(),
    }
}

/// a literal that is certainly not of type `ty`
fn wrong_lit(t: &mut Tape, ty: &str) -> String {
    match ty {
        "int" => (*t.pick(&["\"a\"", "true", "1.5", "\"åäö\""])).to_string(),
        "str" => (*t.pick(&["1", "false", "2.5"])).to_string(),
        "float" => (*t.pick(&["\"f\"", "true", "3"])).to_string(),
        _ => (*t.pick(&["0", "\"t\"", "1.0"])).to_string(),
    }
}

impl<'t, 'a, 'b> G<'t, 'a, 'b> {
    fn fresh(&mut self) -> usize {
        self.n += 1;
        self.n
    }

    /// how file `from` names `name` of file `to` (and what that needs)
    fn refer(&mut self, files: &mut [FileGen], from: usize, to: usize, name: &str) -> (String, Vec<String>) {
        if from == to {
            return (name.to_string(), vec![name.to_string()]);
        }
        let style = files[from].imports.iter().find(|(k, _)| *k == to).map(|(_, s)| s.clone()).unwrap_or(Style::Use);
        match style {
            Style::Use => {
                let ns = files[to].ns.clone();
                (format!("{}.{}", ns, name), vec![ns, name.to_string()])
            }
            Style::UseAs(a) => (format!("{}.{}", a, name), vec![a, name.to_string()]),
            Style::From => {
                if !files[from].from_needed.iter().any(|(k, n)| *k == to && n == name) {
                    files[from].from_needed.push((to, name.to_string()));
                }
                (name.to_string(), vec![name.to_string()])
            }
        }
    }

    /// files visible from `from` (itself and what it imports)
    fn visible(files: &[FileGen], from: usize) -> Vec<usize> {
        let mut v = vec![from];
        for (k, _) in &files[from].imports {
            v.push(*k);
        }
        v
    }

    fn call_text(&mut self, fname: &str, f: &FnInfo) -> String {
        let args: Vec<String> = f.params.iter().map(|p| lit_of(self.t, p)).collect();
        format!("{}({})", fname, args.join(", "))
    }

    /// an expression of type int that needs nothing
    fn int_expr(&mut self, ints: &[String]) -> String {
        match self.t.below(4) {
            0 => lit_of(self.t, "int"),
            1 if !ints.is_empty() => format!("{} + {}", self.t.pick(ints), self.t.below(9)),
            2 if !ints.is_empty() => format!("{} * 2 - {}", self.t.pick(ints), self.t.below(9)),
            _ => format!("{} + {}", self.t.below(9), self.t.below(9)),
        }
    }

    /// one self-contained body statement for a function of file `fi`
    fn body_stmt(&mut self, files: &mut [FileGen], fi: usize, ints: &[String]) -> Stmt {
        let k = self.fresh();
        let pick = self.t.below(10);
        match pick {
            0 => {
                let ty = TYPES[self.t.below(4)];
                Stmt { lines: vec![format!("print({})", lit_of(self.t, ty))], ..Default::default() }
            }
            1 => {
                let e = self.int_expr(ints);
                Stmt { lines: vec![format!("v{} := {}", k, e), format!("print(v{})", k)], ..Default::default() }
            }
            2 => {
                let e = self.int_expr(ints);
                let mut lines = vec![format!("if {} > {} do", e, self.t.below(9)), format!("    print({})", self.t.below(9))];
                match self.t.below(3) {
                    0 => {}
                    1 => {
                        lines.push("else".into());
                        lines.push(format!("    print(\"no {}\")", k));
                    }
                    _ => {
                        lines.push(format!("elif {} < 3 do", self.t.below(9)));
                        lines.push("    print(0)".into());
                        lines.push("else".into());
                        lines.push("    print(1)".into());
                    }
                }
                lines.push("end".into());
                Stmt { lines, ..Default::default() }
            }
            3 => Stmt {
                lines: vec![format!("w{} := 0", k), format!("loop w{} < {} do", k, 1 + self.t.below(4)), format!("    w{} += 1", k), "end".into()],
                ..Default::default()
            },
            4 => Stmt {
                lines: vec![format!("h{} :: fn x: int -> int do", k), format!("    ret x + {}", self.t.below(9)), "end".into(), format!("print(h{}({}))", k, self.t.below(9))],
                ..Default::default()
            },
            5 => {
                // call of a visible function
                let vis = Self::visible(files, fi);
                let cands: Vec<(usize, FnInfo)> = vis.iter().flat_map(|j| files[*j].fns.iter().map(move |f| (*j, f.clone()))).collect();
                if cands.is_empty() {
                    return Stmt { lines: vec![format!("print({})", k)], ..Default::default() };
                }
                let (j, f) = cands[self.t.below(cands.len())].clone();
                let (name, refs) = self.refer(files, fi, j, &f.name);
                let call = self.call_text(&name, &f);
                let lines = if self.t.bool() { vec![format!("print({})", call)] } else { vec![format!("v{} :: {}", k, call), format!("print(v{})", k)] };
                Stmt { lines, refs, ..Default::default() }
            }
            6 if !files[fi].blobs.is_empty() => {
                let b = self.t.pick(&files[fi].blobs).clone();
                Stmt { lines: vec![format!("b{} :: {} {{ x: {}, y: \"s\" }}", k, b, self.t.below(9)), format!("print(b{}.x)", k)], refs: vec![b], ..Default::default() }
            }
            7 if !files[fi].enums.is_empty() => {
                let e = self.t.pick(&files[fi].enums).clone();
                Stmt {
                    lines: vec![
                        format!("e{} :: {}.A", k, e),
                        format!("case e{} do", k),
                        "    A ->".into(),
                        "        print(1)".into(),
                        "    end".into(),
                        "    B n ->".into(),
                        "        print(n)".into(),
                        "    end".into(),
                        "    else".into(),
                        "        print(2)".into(),
                        "    end".into(),
                        "end".into(),
                    ],
                    refs: vec![e],
                    ..Default::default()
                }
            }
            8 => Stmt { lines: vec!["do".into(), format!("    print({})", k), "end".into()], ..Default::default() },
            _ => {
                // read of a visible constant
                let vis = Self::visible(files, fi);
                let cands: Vec<(usize, String)> = vis.iter().flat_map(|j| files[*j].consts.iter().map(move |c| (*j, c.name.clone()))).collect();
                if cands.is_empty() {
                    return Stmt { lines: vec![format!("print(\"k{}\")", k)], ..Default::default() };
                }
                let (j, c) = cands[self.t.below(cands.len())].clone();
                let (name, refs) = self.refer(files, fi, j, &c);
                Stmt { lines: vec![format!("v{} :: {}", k, name), format!("print(v{})", k)], refs, ..Default::default() }
            }
        }
    }

    fn gen_file_core(&mut self, files: &mut Vec<FileGen>, fi: usize) {
        let letter = files[fi].letter;
        let up = letter.to_ascii_uppercase();
        // globals
        let nglob = 1 + self.t.below(3);
        for i in 0..nglob {
            let ty = TYPES[self.t.weighted(&[5, 2, 1, 1])];
            let mutable = self.t.chance(1, 4);
            let name = format!("{}{}{}", letter, if mutable { 'v' } else { 'c' }, i);
            let mut refs = Vec::new();
            let mut value = lit_of(self.t, ty);
            if ty == "int" && self.t.chance(1, 3) {
                // derived from a visible int constant
                let vis = Self::visible(files, fi);
                let cands: Vec<(usize, String)> =
                    vis.iter().flat_map(|j| files[*j].consts.iter().filter(|c| c.ty == "int" && !c.mutable).map(move |c| (*j, c.name.clone()))).collect();
                if !cands.is_empty() {
                    let (j, c) = cands[self.t.below(cands.len())].clone();
                    let (n, r) = self.refer(files, fi, j, &c);
                    value = format!("{} + {}", n, self.t.below(9));
                    refs = r;
                }
            }
            let head = match (mutable, self.t.chance(1, 3)) {
                (false, false) => format!("{} :: {}", name, value),
                (false, true) => format!("{}: {} : {}", name, ty, value),
                (true, false) => format!("{} := {}", name, value),
                (true, true) => format!("{}: {} = {}", name, ty, value),
            };
            files[fi].consts.push(ConstInfo { name: name.clone(), ty, mutable });
            files[fi].pieces.push(Piece { role: "global".into(), head: vec![head], defines: vec![(name, 0)], refs, ..Default::default() });
        }
        // blob / enum
        if self.t.chance(1, 3) {
            let name = format!("{}b0", up);
            files[fi].blobs.push(name.clone());
            files[fi].pieces.push(Piece { role: "blob".into(), head: vec![format!("{} :: blob {{ x: int, y: str }}", name)], defines: vec![(name, 0)], ..Default::default() });
        }
        if self.t.chance(1, 3) {
            let name = format!("{}e0", up);
            files[fi].enums.push(name.clone());
            files[fi].pieces.push(Piece { role: "enum".into(), head: vec![format!("{} :: enum A, B int end", name)], defines: vec![(name, 0)], ..Default::default() });
        }
        // functions
        let nfn = if fi == 0 { self.t.below(3) } else { 1 + self.t.below(2) };
        for i in 0..nfn {
            let name = format!("{}f{}", letter, i);
            let np = self.t.weighted(&[1, 3, 4, 1]);
            let params: Vec<&'static str> = (0..np).map(|_| TYPES[self.t.weighted(&[5, 3, 1, 1])]).collect();
            let ret = TYPES[self.t.weighted(&[5, 2, 1, 1])];
            let pnames: Vec<String> = (0..np).map(|k| format!("p{}", k)).collect();
            let sig: Vec<String> = pnames.iter().zip(params.iter()).map(|(n, t)| format!("{}: {}", n, t)).collect();
            let head = if np == 0 { format!("{} :: fn -> {} do", name, ret) } else { format!("{} :: fn {} -> {} do", name, sig.join(", "), ret) };
            let ints: Vec<String> = pnames.iter().zip(params.iter()).filter(|(_, t)| **t == "int").map(|(n, _)| n.clone()).collect();
            let nb = self.t.below(4);
            let mut body = Vec::new();
            for _ in 0..nb {
                body.push(self.body_stmt(files, fi, &ints));
            }
            let same: Vec<&String> = pnames.iter().zip(params.iter()).filter(|(_, t)| **t == ret).map(|(n, _)| n).collect();
            let rv = if !same.is_empty() && self.t.bool() {
                let p = same[self.t.below(same.len())].clone();
                if ret == "int" {
                    format!("{} + {}", p, self.t.below(9))
                } else {
                    p
                }
            } else {
                lit_of(self.t, ret)
            };
            let pc = Piece { role: "fn".into(), head: vec![head], body, tail: vec![format!("    ret {}", rv), "end".into()], defines: vec![(name.clone(), 0)], ..Default::default() };
            // the function is registered after its body was generated: no self recursion, no cycles between globals
            files[fi].fns.push(FnInfo { name, params, ret });
            files[fi].pieces.push(pc);
        }
        if fi == 0 {
            // start uses everything visible
            let mut body = Vec::new();
            let vis = Self::visible(files, 0);
            for j in vis.iter() {
                let fns = files[*j].fns.clone();
                for f in fns {
                    let (n, refs) = self.refer(files, 0, *j, &f.name);
                    let call = self.call_text(&n, &f);
                    body.push(Stmt { lines: vec![format!("print({})", call)], refs, ..Default::default() });
                }
                let cs = files[*j].consts.clone();
                for c in cs {
                    let (n, refs) = self.refer(files, 0, *j, &c.name);
                    body.push(Stmt { lines: vec![format!("print({})", n)], refs, ..Default::default() });
                }
            }
            let extra = self.t.below(3);
            for _ in 0..extra {
                let s = self.body_stmt(files, 0, &[]);
                let pos = self.t.below(body.len() + 1);
                body.insert(pos, s);
            }
            files[0].pieces.push(Piece { role: "start".into(), head: vec!["start :: fn do".into()], body, tail: vec!["end".into()], defines: vec![("start".into(), 0)], ..Default::default() });
        }
        // order of the top-level pieces is free
        if self.t.chance(1, 2) {
            let n = files[fi].pieces.len();
            for i in (1..n).rev() {
                let j = self.t.below(i + 1);
                files[fi].pieces.swap(i, j);
            }
        }
    }

    fn import_pieces(&mut self, files: &mut Vec<FileGen>, fi: usize) {
        let mut pieces = Vec::new();
        let imports = files[fi].imports.clone();
        for (to, style) in imports.iter() {
            let fkey = format!("file:{}", files[*to].path);
            match style {
                Style::Use => pieces.push(Piece {
                    role: "import".into(),
                    head: vec![format!("use {}", files[*to].use_path)],
                    defines: vec![(files[*to].ns.clone(), 0)],
                    refs: vec![fkey],
                    ..Default::default()
                }),
                Style::UseAs(a) => pieces.push(Piece {
                    role: "import".into(),
                    head: vec![format!("use {} as {}", files[*to].use_path, a)],
                    defines: vec![(a.clone(), 0)],
                    refs: vec![fkey],
                    ..Default::default()
                }),
                Style::From => {
                    let names: Vec<String> = files[fi].from_needed.iter().filter(|(k, _)| k == to).map(|(_, n)| n.clone()).collect();
                    if names.is_empty() {
                        // keep the file reachable
                        pieces.push(Piece {
                            role: "import".into(),
                            head: vec![format!("use {} as {}z", files[*to].use_path, files[*to].letter)],
                            defines: vec![(format!("{}z", files[*to].letter), 0)],
                            refs: vec![fkey.clone()],
                            ..Default::default()
                        });
                    }
                    for n in names {
                        pieces.push(Piece {
                            role: "import".into(),
                            head: vec![format!("from {} use {}", files[*to].use_path, n)],
                            defines: vec![(n.clone(), 0)],
                            refs: vec![fkey.clone(), n],
                            ..Default::default()
                        });
                    }
                }
            }
        }
        // imports usually lead the file, but need not
        for pc in pieces.into_iter().rev() {
            let pos = if self.t.chance(1, 5) { self.t.below(files[fi].pieces.len() + 1) } else { 0 };
            files[fi].pieces.insert(pos, pc);
        }
    }

    fn long_comment(&mut self) -> String {
        let target = 150 + self.t.below(6) * 120;
        let mut s = String::from("//");
        while s.len() < target {
            s.push(' ');
            s.push_str(*self.t.pick(&WORDS));
        }
        s
    }

    fn multiline_string(&mut self, open: &str, close: &str) -> Vec<String> {
        let n = 2 + self.t.below(3);
        let mut lines = Vec::new();
        for i in 0..n {
            let frag = *self.t.pick(&STRING_FRAGS);
            let mut l = String::new();
            if i == 0 {
                l.push_str(open);
                l.push_str(if frag.is_empty() { "first" } else { frag });
            } else {
                l.push_str(frag);
            }
            if i == n - 1 {
                l.push_str(close);
            }
            lines.push(l);
        }
        lines
    }

    fn shape_piece(&mut self, letter: char) -> Piece {
        let k = self.fresh();
        let class = SHAPE_CLASSES[self.t.weighted(&[5, 3, 3, 2, 2, 2])];
        let up = letter.to_ascii_uppercase();
        let (head, defines): (Vec<String>, Vec<(String, usize)>) = match class {
            "multiline-string" => {
                let name = format!("{}s{}", letter, k);
                let close = if self.t.chance(1, 4) { "\" + \"z\"" } else { "\"" };
                (self.multiline_string(&format!("{} :: \"", name), close), vec![(name, 0)])
            }
            "string-nonascii" => {
                let name = format!("{}s{}", letter, k);
                (vec![format!("{} :: \"{}\"", name, self.t.pick(&NONASCII_STRINGS))], vec![(name, 0)])
            }
            "comment-nonascii" => (vec![(*self.t.pick(&NONASCII_COMMENTS)).to_string()], vec![]),
            "comment-long" => (vec![self.long_comment()], vec![]),
            "multiline-construct" => match self.t.below(3) {
                0 => {
                    let name = format!("{}b{}", up, k);
                    (vec![format!("{} :: blob {{", name), "    x: int,".into(), "    y: str,".into(), "}".into()], vec![(name, 0)])
                }
                1 => {
                    let name = format!("{}l{}", letter, k);
                    (vec![format!("{} :: [", name), "    1,".into(), "    2,".into(), "]".into()], vec![(name, 0)])
                }
                _ => {
                    let name = format!("{}t{}", letter, k);
                    (vec![format!("{} :: (1,", name), "    \"two\",".into(), "    3.0)".into()], vec![(name, 0)])
                }
            },
            _ => {
                // now and then enough lines to push the line numbers past 255
                let n = if self.t.chance(1, 16) { 260 } else { 1 + self.t.below(6) };
                ((0..n).map(|_| (*self.t.pick(&["", "", "   ", "\t"])).to_string()).collect(), vec![])
            }
        };
        Piece { role: "shape".into(), head, defines, shape: Some(class.to_string()), ..Default::default() }
    }

    fn shape_stmt(&mut self) -> Stmt {
        let k = self.fresh();
        let class = SHAPE_CLASSES[self.t.weighted(&[5, 3, 3, 2, 2, 2])];
        let lines: Vec<String> = match class {
            "multiline-string" => {
                if self.t.bool() {
                    self.multiline_string(&format!("u{} :: \"", k), "\"")
                } else {
                    self.multiline_string("print(\"", "\")")
                }
            }
            "string-nonascii" => {
                if self.t.bool() {
                    vec![format!("u{} :: \"{}\"", k, self.t.pick(&NONASCII_STRINGS))]
                } else {
                    vec![format!("print(\"{}\")", self.t.pick(&NONASCII_STRINGS))]
                }
            }
            "comment-nonascii" => vec![(*self.t.pick(&NONASCII_COMMENTS)).to_string()],
            "comment-long" => vec![self.long_comment()],
            "multiline-construct" => match self.t.below(3) {
                0 => vec![format!("u{} :: [", k), "    1,".into(), "    2,".into(), "]".into()],
                1 => vec!["print(".into(), format!("    {}", k), ")".into()],
                _ => vec![format!("u{} :: (1,", k), "    2)".into()],
            },
            _ => {
                let n = 1 + self.t.below(5);
                (0..n).map(|_| (*self.t.pick(&["", "", "  ", "\t"])).to_string()).collect()
            }
        };
        Stmt { lines, shape: Some(class.to_string()), ..Default::default() }
    }

    fn insert_shapes(&mut self, files: &mut Vec<FileGen>, fi: usize, plant_file: bool) {
        let letter = files[fi].letter;
        let n = if plant_file { self.t.weighted(&[1, 2, 3, 3, 2, 1, 1]) } else { self.t.weighted(&[4, 2, 1]) };
        for _ in 0..n {
            let fn_idx: Vec<usize> = files[fi].pieces.iter().enumerate().filter(|(_, p)| p.role == "fn" || p.role == "start").map(|(i, _)| i).collect();
            if !fn_idx.is_empty() && self.t.chance(2, 5) {
                let pi = fn_idx[self.t.below(fn_idx.len())];
                let s = self.shape_stmt();
                // early positions: more text after them
                let len = files[fi].pieces[pi].body.len();
                let pos = self.t.below(len + 1).min(self.t.below(len + 1));
                files[fi].pieces[pi].body.insert(pos, s);
            } else {
                let pc = self.shape_piece(letter);
                let len = files[fi].pieces.len();
                let pos = self.t.below(len + 1).min(self.t.below(len + 1));
                files[fi].pieces.insert(pos, pc);
            }
        }
        // line-ending / whitespace flags
        let whole_crlf = self.t.chance(1, 6);
        let whole_tabs = self.t.chance(1, 10);
        for pc in files[fi].pieces.iter_mut() {
            pc.crlf = whole_crlf || self.t.chance(1, 10);
            pc.tabs = whole_tabs || self.t.chance(1, 10);
            if self.t.chance(1, 8) {
                pc.trail = (*self.t.pick(&["  ", "\t", " \t "])).to_string();
            }
        }
    }

    fn wrap(&mut self, allow_loop: bool) -> Wrap {
        let k = self.fresh();
        loop {
            let w = match self.t.below(8) {
                0 => Wrap { kind: "if".into(), open: vec![(*self.t.pick(&["if true do", "if 1 < 2 do", "if not false do"])).to_string()], close: vec!["end".into()], inner: 1 },
                1 => Wrap { kind: "closure".into(), open: vec![format!("zq{} :: fn do", k)], close: vec!["end".into(), format!("zq{}()", k)], inner: 1 },
                2 if allow_loop => Wrap { kind: "loop".into(), open: vec![(*self.t.pick(&["loop do", "loop true do"])).to_string()], close: vec!["    break".into(), "end".into()], inner: 1 },
                2 => continue,
                3 => Wrap {
                    kind: "else".into(),
                    open: vec!["if false do".into(), format!("    zm{} :: 0", k), "else".into()],
                    close: vec![format!("    zk{} :: 0", k), "end".into()],
                    inner: 1,
                },
                4 => Wrap {
                    kind: "elif".into(),
                    open: vec!["if false do".into(), format!("    zm{} :: 0", k), "elif true do".into()],
                    close: vec![format!("    zk{} :: 0", k), "else".into(), format!("    zj{} :: 0", k), "end".into()],
                    inner: 1,
                },
                5 => Wrap { kind: "do".into(), open: vec!["do".into()], close: vec!["end".into()], inner: 1 },
                6 => Wrap {
                    kind: "case-arm".into(),
                    open: vec!["case Maybe.Just 1 do".into(), format!("    Just zv{} ->", k)],
                    close: vec![format!("        zk{} :: 0", k), "    end".into(), "    else".into(), format!("        zj{} :: 0", k), "    end".into(), "end".into()],
                    inner: 2,
                },
                _ => Wrap {
                    kind: "closure".into(),
                    open: vec![format!("zq{} :: fn zp{}: int do", k, k)],
                    close: vec!["end".into(), format!("zq{}({})", k, self.t.below(9))],
                    inner: 1,
                },
            };
            return w;
        }
    }
}

/// spellings usable as a definition (top level or block): `{x}` is a fresh name
const SYNTAX_DEF: [&str; 21] = [
    "{x} :: )",
    "{x} :: 1)",
    "{x} := ]",
    "{x} :: 1 +",
    "{x} :: * 2",
    "{x} :: 1 2",
    "{x} :: fn",
    "{x} :: 1 ,",
    "{x} :: [1 2]",
    "{x} :: Zz { x 1 }",
    "{x}: = 1",
    "{x}: int 1",
    "{x} :: 1 :: 2",
    "{x} :: @",
    "{x} :: å",
    "{x} :: 1 -> 2",
    "{x} :: zy.",
    "{x} :: zy[a]",
    "{x} :: zy(1,, 2)",
    "{x} :: \"åäö\" \"b\"",
    "{x} :: }",
];
const SYNTAX_BLOCK: [&str; 7] = ["if do", "loop 1 +", "{x} = ", "{x} += )", "ret )", "1 +", "do )"];
const UNRESOLVED_DEF: [&str; 12] = [
    "Zb{x} :: blob { a: Nope }",
    "Ze{x} :: enum A Nope end",
    "{x} :: fn a: int -> Nope do end",
    "{x} :: nope + 1",
    "{x} :: nope(3)",
    "{x}: Nope = 1",
    "{x}: [Nope] = []",
    "{x} :: Nope { a: 1 }",
    "{x} :: Nope.A",
    "{x} :: fn a: Nope do end",
    "{x} :: nope.y",
    "{x} :: 1 + nope()",
];
const UNRESOLVED_BLOCK: [&str; 4] = ["nope(3)", "nope = 1", "nope += 1", "print(nope)"];
const OPERATOR_DEF: [&str; 16] = [
    "{x} :: 1 + \"a\"",
    "{x} :: \"a\" + 1",
    "{x} :: 1 - \"a\"",
    "{x} :: \"a\" * 2",
    "{x} :: 1 / \"a\"",
    "{x} :: 1 < \"a\"",
    "{x} :: 1 == \"a\"",
    "{x} :: 1 == 1.0",
    "{x} :: not 1",
    "{x} :: true and 1",
    "{x} :: 1 or false",
    "{x} :: true + 1",
    "{x} :: (1, 2) + 1",
    "{x} :: [1] + 1",
    "{x} :: 1 + 1.0",
    "{x} :: \"åäö\" + 1",
];
const OPERATOR_BLOCK: [&str; 3] = ["print(1 + \"a\")", "1 + \"a\"", "print(\"日本語\" * 2)"];
const ANNOTATION_DEF: [&str; 12] = [
    "{x}: int = \"s\"",
    "{x}: str = 1",
    "{x}: float = 1",
    "{x}: bool = 0",
    "{x}: int : \"s\"",
    "{x}: [int] = [\"a\"]",
    "{x}: (int, str) = (1, 2)",
    "{x}: int = nil",
    "{x}: int = true",
    "{x}: fn -> int = fn -> str do \"a\" end",
    "{x} :: fn -> int do ret \"s\" end",
    "{x}: str = \"åäö\" + 1",
];
/// expression plants (own line inside a multi-line construct); the second set leaves the error token to whatever follows on
/// the line, so it needs a `,` after it or a context that does not skip newlines
const SYNTAX_EXPR: [&str; 5] = ["1 2", "* 2", "@", "å", "1 :: 2"];
const SYNTAX_EXPR_DANGLING: [&str; 2] = ["zy.", "1 +"];
const UNRESOLVED_EXPR: [&str; 5] = ["nope", "nope(1)", "Nope.A", "1 + nope", "nope.y"];
const OPERATOR_EXPR: [&str; 6] = ["1 + \"a\"", "\"a\" * 2", "not 1", "1 < \"a\"", "true + 1", "\"åäö\" - 1"];
const UNARY_MINUS: [&str; 4] = ["-\"a\"", "-true", "-\"åäö\"", "-[1]"];
const OUTER_STMT: [&str; 6] = ["break", "print(1)", "1 + 1", "{x} = 1", "ret 1", "<!>"];
const TRAILERS: [&str; 7] = ["", "", "", " // note", "   ", "\t", " // åäö 😀"];

pub fn generate(t: &mut Tape, _tier: Tier) -> Case {
    // 80 % of the budget avoids the kind behind the open finding (outer-stmt); syntax-eof was fixed in 5895c94
    let avoid_known = match std::env::var("C15_AVOID").ok().as_deref() {
        Some("1") => {
            let _ = t.byte();
            true
        }
        Some("0") => {
            let _ = t.byte();
            false
        }
        _ => !t.chance(1, 5),
    };
    let mut g = G { t, n: 0 };
    let nfiles = 1 + g.t.weighted(&[3, 4, 3]);
    let third = *g.t.pick(&[("third", "third", "/p/third.sy"), ("sub/inner", "inner", "/p/sub/inner.sy"), ("sub/", "sub", "/p/sub/exports.sy"), ("/third", "third", "/p/third.sy")]);
    let second = *g.t.pick(&[("other", "other", "/p/other.sy"), ("other", "other", "/p/other.sy"), ("/other", "other", "/p/other.sy")]);
    let specs = [("", "", "/p/main.sy", 'm'), (second.0, second.1, second.2, 'p'), (third.0, third.1, third.2, 'q')];
    let mut files: Vec<FileGen> = specs[..nfiles]
        .iter()
        .map(|(u, ns, p, l)| FileGen {
            letter: *l,
            use_path: u.to_string(),
            ns: ns.to_string(),
            path: p.to_string(),
            consts: vec![],
            fns: vec![],
            blobs: vec![],
            enums: vec![],
            imports: vec![],
            from_needed: vec![],
            pieces: vec![],
        })
        .collect();
    // import graph: i imports j only for j > i; every file is reachable from main
    let style = |g: &mut G, alias: &str| match g.t.below(3) {
        0 => Style::Use,
        1 => Style::UseAs(alias.to_string()),
        _ => Style::From,
    };
    if nfiles >= 2 {
        let s = style(&mut g, "oo");
        files[0].imports.push((1, s));
    }
    if nfiles == 3 {
        let who = g.t.below(3);
        if who != 1 {
            let s = style(&mut g, "tt");
            files[0].imports.push((2, s));
        }
        if who != 0 {
            let s = style(&mut g, "uu");
            files[1].imports.push((2, s));
        }
    }
    for fi in (0..nfiles).rev() {
        g.gen_file_core(&mut files, fi);
    }
    for fi in 0..nfiles {
        g.import_pieces(&mut files, fi);
    }
    if nfiles >= 2 && g.t.chance(1, 6) {
        // an import cycle is legal: the imported module imports main back (and does not use it)
        let pos = g.t.below(files[1].pieces.len() + 1);
        files[1].pieces.insert(pos, Piece { role: "import".into(), head: vec!["use main as mm".into()], defines: vec![("mm".into(), 0)], ..Default::default() });
    }
    // where the plant goes
    let pfile = if nfiles > 1 && g.t.chance(1, 2) { 1 + g.t.below(nfiles - 1) } else { 0 };
    for fi in 0..nfiles {
        g.insert_shapes(&mut files, fi, fi == pfile);
    }
    let plant = gen_plant(&mut g, &mut files, pfile, avoid_known);
    Case { files: files.into_iter().map(|f| FileSpec { path: f.path, pieces: f.pieces }).collect(), plant, avoid_known }
}

fn gen_plant(g: &mut G, files: &mut Vec<FileGen>, pfile: usize, avoid_known: bool) -> Plant {
    let kw: [u32; 12] = [20, 12, 10, 10, 10, 10, 10, 8, 8, if avoid_known { 0 } else { 14 }, 8, 5];
    let mut kind = KINDS[g.t.weighted(&kw)];
    // development switch: only one kind
    if let Ok(k) = std::env::var("C15_KIND") {
        if let Some(found) = KINDS.iter().find(|x| **x == k) {
            kind = found;
        }
    }
    let k = g.fresh();
    let x = format!("zx{}", k);
    let mut p = Plant { kind: kind.to_string(), file: pfile, ..Default::default() };
    let top_only = matches!(kind, "duplicate" | "outer-stmt" | "syntax-eof");
    let block_only = matches!(kind, "const-assign" | "break");
    let fn_idx: Vec<usize> = files[pfile].pieces.iter().enumerate().filter(|(_, pc)| pc.role == "fn" || pc.role == "start").map(|(i, _)| i).collect();
    let npieces = files[pfile].pieces.len();
    // late positions: more text before the planted line
    let late = |g: &mut G, n: usize| g.t.below(n + 1).max(g.t.below(n + 1));
    let in_block = !top_only && (block_only || g.t.chance(2, 3));
    if kind == "conflict-marker" {
        // anywhere, but at the start of its line
        p.unindented = true;
        if !fn_idx.is_empty() && g.t.chance(1, 2) {
            let pi = fn_idx[g.t.below(fn_idx.len())];
            p.piece = pi;
            let n = files[pfile].pieces[pi].body.len();
            p.stmt = Some(late(g, n));
        } else {
            p.piece = late(g, npieces);
        }
        p.spelling = format!("marker{}", g.t.below(4));
        p.line = (*g.t.pick(&["<<<<<<< HEAD", "<<<<<<<", "<<<<<<< feature/åäö", "<<<<<<< HEAD:main.sy"])).to_string();
        decorate(g, &mut p);
        return p;
    }
    if in_block {
        if !fn_idx.is_empty() && !g.t.chance(1, 4) {
            let pi = fn_idx[g.t.below(fn_idx.len())];
            p.piece = pi;
            let n = files[pfile].pieces[pi].body.len();
            p.stmt = Some(late(g, n));
        } else {
            p.piece = late(g, npieces);
            p.wraps.push(Wrap { kind: "fresh-fn".into(), open: vec![format!("zw{} :: fn do", k)], close: vec!["end".into()], inner: 1 });
        }
        let depth = g.t.weighted(&[3, 3, 2, 1]);
        for _ in 0..depth {
            let w = g.wrap(true);
            p.wraps.push(w);
        }
        if kind == "break" {
            // `break` must not see a loop of its own function: a loop wrapper needs a function literal inside it
            let mut in_loop = false;
            for w in &p.wraps {
                match w.kind.as_str() {
                    "loop" => in_loop = true,
                    "closure" | "fresh-fn" => in_loop = false,
                    _ => {}
                }
            }
            if in_loop {
                p.wraps.push(Wrap { kind: "closure".into(), open: vec![format!("zq{} :: fn do", k)], close: vec!["end".into(), format!("zq{}()", k)], inner: 1 });
            }
        }
    } else {
        p.piece = late(g, npieces);
    }
    let sub = |s: &str| s.replace("{x}", &x);
    // (unary minus used to be checked late and reported on the first line of the enclosing construct: fixed in 25e04d4)
    let expr_ctx = match kind {
        "syntax" | "unresolved" | "operator" => g.t.chance(1, 4),
        "unary-minus" => g.t.chance(1, 2),
        _ => false,
    };
    if expr_ctx {
        // the plant is an expression on its own line inside a multi-line construct
        // (an int list around a unary-minus plant would add an element mismatch of its own)
        let ctx = if kind == "unary-minus" { 1 + g.t.below(4) } else { g.t.below(5) };
        let (w, prefix, suffix, twin): (Wrap, &str, &str, &str) = match ctx {
            0 => (Wrap { kind: "list-int".into(), open: vec![format!("zl{} :: [", k), "    1,".into()], close: vec!["    3,".into(), "]".into()], inner: 1 }, "", ",", "0"),
            1 => (
                Wrap { kind: "list-str".into(), open: vec![format!("zl{} :: [", k), "    \"a".into(), "b\",".into()], close: vec!["    \"c\",".into(), "]".into()], inner: 1 },
                "",
                ",",
                "\"z\"",
            ),
            2 => (Wrap { kind: "call-arg".into(), open: vec![format!("zg{} :: as_str(", k)], close: vec![")".into()], inner: 1 }, "", "", "0"),
            3 => (Wrap { kind: "paren-group".into(), open: vec![format!("zg{} :: (", k)], close: vec![")".into()], inner: 1 }, "", "", "0"),
            _ => (Wrap { kind: "string-tail".into(), open: vec![format!("zs{} :: \"first", k), "middle".into()], close: vec![], inner: 1 }, "last\" + ", "", "\"z\""),
        };
        let dangling_ok = ctx <= 1 || ctx == 4;
        p.wraps.push(w);
        p.prefix = prefix.into();
        p.suffix = suffix.into();
        p.twin = twin.into();
        match kind {
            "syntax" => {
                let n = SYNTAX_EXPR.len() + if dangling_ok { SYNTAX_EXPR_DANGLING.len() } else { 0 };
                let i = g.t.below(n);
                p.spelling = format!("expr{}", i);
                p.line = if i < SYNTAX_EXPR.len() { SYNTAX_EXPR[i].into() } else { SYNTAX_EXPR_DANGLING[i - SYNTAX_EXPR.len()].into() };
                if ctx == 2 && i == 0 {
                    // `f(1 2)` is a call with two arguments: the comma is optional
                    p.spelling = "expr1".into();
                    p.line = SYNTAX_EXPR[1].into();
                }
            }
            "unary-minus" => {
                let i = g.t.below(UNARY_MINUS.len());
                p.spelling = format!("expr{}", i);
                p.line = if ctx == 4 { format!("({})", UNARY_MINUS[i]) } else { UNARY_MINUS[i].into() };
            }
            "unresolved" => {
                let i = g.t.below(UNRESOLVED_EXPR.len());
                p.spelling = format!("expr{}", i);
                p.line = UNRESOLVED_EXPR[i].into();
            }
            _ => {
                let i = g.t.below(OPERATOR_EXPR.len());
                p.spelling = format!("expr{}", i);
                p.line = if ctx == 4 { format!("({})", OPERATOR_EXPR[i]) } else { OPERATOR_EXPR[i].into() };
            }
        }
        decorate(g, &mut p);
        return p;
    }
    match kind {
        "syntax" => {
            if in_block && g.t.chance(1, 3) {
                let i = g.t.below(SYNTAX_BLOCK.len());
                p.spelling = format!("block{}", i);
                p.line = sub(SYNTAX_BLOCK[i]).trim_end().to_string();
                if SYNTAX_BLOCK[i].starts_with("{x}") {
                    p.setup_inner.push(format!("{} := 0", x));
                }
            } else {
                let i = g.t.below(SYNTAX_DEF.len());
                p.spelling = format!("def{}", i);
                p.line = sub(SYNTAX_DEF[i]);
            }
        }
        "unresolved" => {
            // through a namespace / a from-import when the file imports something
            let imports = files[pfile].imports.clone();
            let which = g.t.below(4);
            if which == 0 && !imports.is_empty() {
                let (to, style) = imports[g.t.below(imports.len())].clone();
                match style {
                    Style::Use | Style::UseAs(_) => {
                        let ns = if let Style::UseAs(a) = &style { a.clone() } else { files[to].ns.clone() };
                        p.spelling = "namespace-member".into();
                        p.line = match g.t.below(3) {
                            0 => format!("{} :: {}.nope", x, ns),
                            1 => format!("{} :: {}.nope(1)", x, ns),
                            _ => format!("{}: {}.Nope = 1", x, ns),
                        };
                        p.refs.push(ns);
                    }
                    Style::From => {
                        // an import statement lives at top level
                        p.stmt = None;
                        p.wraps.clear();
                        p.piece = late(g, npieces);
                        p.spelling = "from-import".into();
                        p.line = match g.t.below(3) {
                            0 => format!("from {} use nope", files[to].use_path),
                            1 => format!("from {} use nope as {}", files[to].use_path, x),
                            _ => format!("from {} use (nope)", files[to].use_path),
                        };
                        p.refs.push(format!("file:{}", files[to].path));
                    }
                }
            } else if in_block && g.t.chance(1, 3) {
                let i = g.t.below(UNRESOLVED_BLOCK.len());
                p.spelling = format!("block{}", i);
                p.line = UNRESOLVED_BLOCK[i].to_string();
            } else {
                let i = g.t.below(UNRESOLVED_DEF.len());
                p.spelling = format!("def{}", i);
                p.line = sub(UNRESOLVED_DEF[i]);
            }
        }
        "duplicate" => {
            // (not the names the text shapes define: removing a shape must not remove the duplicate)
            let defs: Vec<(String, String)> =
                files[pfile].pieces.iter().filter(|pc| pc.shape.is_none()).flat_map(|pc| pc.defines.iter().map(move |(n, _)| (n.clone(), pc.role.clone()))).collect();
            if g.t.chance(1, 6) {
                // a member name twice inside a declaration laid out one member per line: the planted line is the repetition
                let (open, before, bad, good, after, close, sp): (String, Vec<&str>, &str, &str, Vec<&str>, &str, &str) = match g.t.below(3) {
                    0 => (format!("Zd{} :: enum", k), vec!["Aa,", "Bb int,"], "Aa,", "Dd,", vec!["Cc,"], "end", "variant"),
                    1 => (format!("Zd{} :: enum", k), vec!["Aa,", "Bb int,"], "Aa str,", "Dd str,", vec!["Cc,"], "end", "variant-payload"),
                    _ => (format!("Zd{} :: blob {{", k), vec!["a: int,", "b: str,"], "a: int,", "d: int,", vec!["c: int,"], "}", "field"),
                };
                let mut o = vec![open];
                o.extend(before.iter().map(|l| format!("    {}", l)));
                let mut c: Vec<String> = after.iter().map(|l| format!("    {}", l)).collect();
                c.push(close.to_string());
                p.wraps.push(Wrap { kind: "declaration-lines".into(), open: o, close: c, inner: 1 });
                p.spelling = format!("member-twice-multiline-{}", sp);
                p.twin = good.to_string();
                p.line = bad.to_string();
                decorate(g, &mut p);
                p.trailer.clear();
                return p;
            } else if g.t.chance(1, 6) {
                // a name twice inside one declaration
                p.spelling = "member-twice".into();
                p.line = match g.t.below(3) {
                    0 => format!("Zd{} :: enum A, B int, A end", k),
                    1 => format!("Zd{} :: blob {{ a: int, b: str, a: int }}", k),
                    _ => format!("Zd{} :: enum Aa, Aa end", k),
                };
            } else if defs.is_empty() {
                // nothing to duplicate: define twice ourselves
                p.setup.push(format!("{} :: 1", x));
                p.spelling = "adjacent".into();
                p.line = format!("{} :: 2", x);
            } else {
                let (n, role) = defs[g.t.below(defs.len())].clone();
                let form = g.t.below(5);
                p.spelling = format!("{}-{}", role, form);
                p.line = match form {
                    0 => format!("{} :: 2", n),
                    1 => format!("{} := \"two\"", n),
                    2 => format!("{} :: fn do end", n),
                    3 => format!("{}: int = 2", n),
                    _ => {
                        if n.chars().next().map(|c| c.is_uppercase()).unwrap_or(false) {
                            format!("{} :: blob {{}}", n)
                        } else {
                            format!("{}: int : 2", n)
                        }
                    }
                };
                p.refs.push(n.clone());
                p.dup_of = Some(n);
            }
        }
        "const-assign" => {
            let own: Vec<ConstInfo> = files[pfile].consts.iter().filter(|c| !c.mutable).cloned().collect();
            let imported: Vec<(usize, ConstInfo)> =
                files[pfile].imports.clone().iter().flat_map(|(j, _)| files[*j].consts.iter().filter(|c| !c.mutable).map(move |c| (*j, c.clone()))).collect();
            let which = g.t.below(5);
            let (target, ty): (String, &str) = if which == 2 && !own.is_empty() {
                let c = own[g.t.below(own.len())].clone();
                p.spelling = "own-global".into();
                p.refs.push(c.name.clone());
                (c.name, c.ty)
            } else if which == 3 && !imported.is_empty() {
                let (j, c) = imported[g.t.below(imported.len())].clone();
                let (n, refs) = g.refer(files, pfile, j, &c.name);
                // a from-import added now would need its import piece: only use it when it is already there
                let have = files[pfile].pieces.iter().any(|pc| pc.defines.iter().any(|(d, _)| refs.contains(d)));
                if have {
                    p.spelling = "imported-global".into();
                    p.refs.extend(refs);
                    (n, c.ty)
                } else {
                    p.spelling = "local-outer".into();
                    p.setup.push(format!("zc{} :: 1", k));
                    (format!("zc{}", k), "int")
                }
            } else if which == 4 && fn_limit(files, pfile, &p) > 0 {
                // (an assignment target is a dependency: only functions generated before the enclosing one)
                let lim = fn_limit(files, pfile, &p);
                let f = files[pfile].fns[g.t.below(lim)].clone();
                p.spelling = "function-name".into();
                p.refs.push(f.name.clone());
                (f.name, "int")
            } else if which == 1 {
                p.spelling = "local-inner".into();
                p.setup_inner.push(if g.t.bool() { format!("zc{} :: 1", k) } else { format!("zc{}: int : 1", k) });
                (format!("zc{}", k), "int")
            } else {
                p.spelling = "local-outer".into();
                p.setup.push(if g.t.bool() { format!("zc{} :: 1", k) } else { format!("zc{}: int : 1", k) });
                (format!("zc{}", k), "int")
            };
            let v = lit_of(g.t, ty);
            p.line = if ty != "bool" && g.t.chance(1, 3) { format!("{} += {}", target, v) } else { format!("{} = {}", target, v) };
        }
        "operator" => {
            if in_block && g.t.chance(1, 4) {
                let i = g.t.below(OPERATOR_BLOCK.len());
                p.spelling = format!("block{}", i);
                p.line = OPERATOR_BLOCK[i].to_string();
            } else {
                let i = g.t.below(OPERATOR_DEF.len());
                p.spelling = format!("def{}", i);
                p.line = sub(OPERATOR_DEF[i]);
            }
        }
        "argument" if g.t.chance(1, 5) => {
            // a generic (unannotated) callee defined right before: the requirement on the argument comes from an operator
            // in the callee's body; the mismatching literal is written at the call
            const GENERIC: &[(&[&str], &[&str])] = &[
                (&["{f} :: fn a0, a1 -> do ret a0 * a1 end"], &["2, \"x\"", "true, 2", "1.5, 2"]),
                (&["{f} :: fn a0 -> do", "    -a0", "end"], &["\"s\"", "true"]),
                (&["{f} :: fn a0, a1 -> do a0 < a1 end"], &["1, \"s\"", "\"a\", 2"]),
                (&["{f} :: fn a0, a1 -> do", "    a0 + a1", "end"], &["1, \"s\"", "1, 1.5", "\"a\", 2.5"]),
                (&["{f} :: fn a0, a1 -> do", "    zt :: a0 - a1", "    zt", "end"], &["1, \"s\"", "2.5, 1"]),
                (&["{f} :: abs"], &["\"q\""]),
            ];
            let i = g.t.below(GENERIC.len());
            let (def, bads) = GENERIC[i];
            let fname = format!("zf{}", k);
            for l in def {
                p.setup.push(l.replace("{f}", &fname));
            }
            let bad = *g.t.pick(bads);
            let (call, form) = match g.t.below(3) {
                0 => (format!("{}' {}", fname, bad), "prime"),
                _ => (format!("{}({})", fname, bad), "paren"),
            };
            p.spelling = format!("generic-callee{}-{}", i, form);
            p.line = if in_block && form != "prime" && g.t.bool() { format!("print({})", call) } else { format!("{} :: {}", x, call) };
        }
        "argument" => {
            // the annotated function: own, imported (import piece must exist already), or defined right before
            // inside an existing function only functions generated before it may be called (no dependency cycles)
            let limit = fn_limit(files, pfile, &p);
            let own: Vec<FnInfo> = files[pfile].fns[..limit].iter().filter(|f| !f.params.is_empty()).cloned().collect();
            let imported: Vec<(usize, FnInfo)> =
                files[pfile].imports.clone().iter().flat_map(|(j, _)| files[*j].fns.iter().filter(|f| !f.params.is_empty()).map(move |f| (*j, f.clone()))).collect();
            let which = g.t.below(3);
            let mut src = "adjacent";
            let mut f = FnInfo { name: format!("zf{}", k), params: vec!["int", "str"], ret: "int" };
            let mut fname = f.name.clone();
            if which == 0 && !own.is_empty() {
                f = own[g.t.below(own.len())].clone();
                fname = f.name.clone();
                p.refs.push(f.name.clone());
                src = "own";
            } else if which == 1 && !imported.is_empty() {
                let (j, fi) = imported[g.t.below(imported.len())].clone();
                let (n, refs) = g.refer(files, pfile, j, &fi.name);
                let have = files[pfile].pieces.iter().any(|pc| pc.defines.iter().any(|(d, _)| refs.contains(d)));
                if have {
                    f = fi;
                    fname = n;
                    p.refs.extend(refs);
                    src = "imported";
                }
            }
            if src == "adjacent" {
                if g.t.bool() {
                    f.params = vec!["int", "int"];
                }
                let sig: Vec<String> = f.params.iter().enumerate().map(|(i, t)| format!("a{}: {}", i, t)).collect();
                p.setup.push(format!("{} :: fn {} -> int do ret a0 end", f.name, sig.join(", ")));
            }
            let mut args: Vec<String> = f.params.iter().map(|t| lit_of(g.t, t)).collect();
            let how = g.t.below(4);
            let mut bad_idx: Option<usize> = None;
            let what;
            if how == 3 {
                // arity
                what = "arity";
                if g.t.bool() || args.len() > 3 {
                    args.pop();
                } else {
                    args.push("1".into());
                }
            } else {
                what = "type";
                let i = g.t.below(args.len());
                args[i] = wrong_lit(g.t, f.params[i]);
                bad_idx = Some(i);
            }
            let paren = format!("{}({})", fname, args.join(", "));
            let form = g.t.below(5);
            let (call, fname_form) = match form {
                0 => (paren.clone(), "paren"),
                1 if !args.is_empty() => (format!("{} -> {}({})", args[0], fname, args[1..].join(", ")), "arrow"),
                2 if !args.is_empty() => (format!("{}' {}", fname, args.join(", ")), "prime"),
                _ => (paren.clone(), "paren"),
            };
            p.spelling = format!("{}-{}-{}", src, what, fname_form);
            if what == "type" && g.t.chance(1, 4) {
                // the call laid out over several lines, one argument per line: the planted line is the mismatching argument
                let bad = bad_idx.unwrap_or(0);
                let good_lit = |ty: &str| match ty {
                    "int" => "7",
                    "str" => "\"ok\"",
                    "float" => "1.5",
                    _ => "true",
                };
                let mut open = vec![format!("zg{} :: {}(", k, fname)];
                for a in &args[..bad] {
                    open.push(format!("    {},", a));
                }
                let mut close: Vec<String> = Vec::new();
                for (n, a) in args[bad + 1..].iter().enumerate() {
                    let last = bad + 1 + n == args.len() - 1;
                    close.push(format!("    {}{}", a, if last { "" } else { "," }));
                }
                close.push(")".into());
                let comma = if bad + 1 < args.len() { "," } else { "" };
                p.wraps.push(Wrap { kind: "call-arg-lines".into(), open, close, inner: 1 });
                p.spelling = format!("{}-type-multiline-arg{}", src, bad);
                p.twin = format!("{}{}", good_lit(f.params[bad]), comma);
                p.line = format!("{}{}", args[bad], comma);
                decorate(g, &mut p);
                return p;
            }
            if fname_form != "prime" && g.t.chance(1, 6) {
                // the call on its own line inside a multi-line construct
                let w = if g.t.bool() {
                    Wrap { kind: "call-arg".into(), open: vec![format!("zg{} :: as_str(", k)], close: vec![")".into()], inner: 1 }
                } else {
                    Wrap { kind: "paren-group".into(), open: vec![format!("zg{} :: (", k)], close: vec![")".into()], inner: 1 }
                };
                p.wraps.push(w);
                p.twin = "0".into();
                p.line = call;
                decorate(g, &mut p);
                return p;
            }
            p.line = if in_block {
                match g.t.below(3) {
                    0 => call,
                    1 if fname_form != "prime" => format!("print({})", call),
                    _ => format!("{} :: {}", x, call),
                }
            } else {
                format!("{} :: {}", x, call)
            };
        }
        "annotation" => {
            let i = g.t.below(ANNOTATION_DEF.len());
            p.spelling = format!("def{}", i);
            p.line = sub(ANNOTATION_DEF[i]);
        }
        "unary-minus" => {
            let i = g.t.below(UNARY_MINUS.len());
            p.spelling = format!("def{}", i);
            p.line = match g.t.below(3) {
                0 => format!("{} :: {}", x, UNARY_MINUS[i]),
                1 if in_block => UNARY_MINUS[i].to_string(),
                _ => format!("{} :: 1 + {}", x, UNARY_MINUS[i]),
            };
        }
        "break" => {
            p.spelling = "break".into();
            p.line = "break".into();
        }
        "outer-stmt" => {
            let i = g.t.below(OUTER_STMT.len());
            p.spelling = format!("stmt{}", i);
            p.line = sub(OUTER_STMT[i]);
            if OUTER_STMT[i].starts_with("{x}") {
                p.setup.push(format!("{} := 0", x));
            }
        }
        _ => {
            // syntax-eof: the last line of the file lacks its terminator
            p.piece = npieces;
            let i = g.t.below(8);
            // 0-3: the last line lacks its terminator; 4-7: an unclosed bracket on the last line, which does end with a
            // line break (the error is found at the end of the file, and the file has no further line to blame)
            p.no_final_newline = i < 4;
            p.spelling = format!("eof{}", i);
            p.line = match i {
                0 => format!("{} :: 1", x),
                1 => format!("{} :: 1 +", x),
                2 => format!("{} :: nope", x),
                3 => format!("{}: int = \"s\"", x),
                4 => format!("{} :: [1, 2", x),
                5 => format!("{} :: (1 + 2", x),
                6 => format!("{} :: as_str(1", x),
                _ => format!("{} :: (1, 2", x),
            };
        }
    }
    decorate(g, &mut p);
    if p.no_final_newline || (p.kind == "syntax-eof") {
        p.trailer.clear();
    }
    p
}

/// how many of the file's functions (in generation order) the code at the plant position may mention without closing a
/// dependency cycle: inside an existing function only the functions generated before it
fn fn_limit(files: &[FileGen], pfile: usize, p: &Plant) -> usize {
    let container: Option<String> = if p.stmt.is_some() { files[pfile].pieces[p.piece].defines.first().map(|(n, _)| n.clone()) } else { None };
    match &container {
        Some(c) if c != "start" => files[pfile].fns.iter().position(|f| &f.name == c).unwrap_or(0),
        _ => files[pfile].fns.len(),
    }
}

fn decorate(g: &mut G, p: &mut Plant) {
    p.trailer = (*g.t.pick(&TRAILERS)).to_string();
    p.crlf = g.t.chance(1, 6);
    p.tabs = g.t.chance(1, 8);
}
