//! C10 — function activations and closures do not interfere (re-entrancy).
//! Differential oracle of C01 on a recursion/closure-dense profile, plus a structural monitor: no
//! compiler temporary (`V<n>`) may be a free (global) name that is assigned inside a function body.
use crate::common::*;
use arbitrary::Unstructured;
use syltmodel::gen::{Gen, GenCfg};
use syltmodel::print::Plan as SurfacePlan;
use vcore::{Check, Labels, Plan, Stats, Step, Tape, Tier, Verdict};

pub struct C10;
pub const CHECK: C10 = C10;
pub fn plan(t: Tier) -> Plan {
    Plan::new(t.pick(20_000, 400_000), t.pick(2600, 4000))
}

pub fn reentrant_cfg(thorough: bool) -> GenCfg {
    let mut cfg = GenCfg::core(thorough);
    cfg.reentrant_bias = 3;
    cfg.scenario_weight = 12;
    cfg.recursion = true;
    cfg.fuel = 5;
    cfg.max_decls = if thorough { 7 } else { 5 };
    cfg
}

/// free `V<n>` names assigned inside a nested function of the emitted chunk
pub fn free_temps_assigned_in_functions(lua: &[u8]) -> Vec<String> {
    match minilua::load(lua) {
        Ok(chunk) => minilua::free_global_names(&chunk)
            .into_iter()
            .filter(|(n, assigned, in_fn)| {
                *assigned && *in_fn && n.len() > 1 && n.starts_with('V') && n[1..].chars().all(|c| c.is_ascii_digit())
            })
            .map(|(n, _, _)| n)
            .collect(),
        Err(_) => Vec::new(),
    }
}

impl Check for C10 {
    type Case = ProgCase;
    fn id(&self) -> &'static str {
        "C10"
    }
    fn generate(&self, u: &mut Unstructured, tier: Tier) -> Option<ProgCase> {
        let mut t = Tape::new(u);
        let cfg = reentrant_cfg(tier == Tier::Thorough);
        let prog = Gen::new(&mut t, cfg).program();
        let plan = SurfacePlan::default();
        let source = render(&prog, &plan).text;
        Some(ProgCase { prog, plan, source })
    }

    fn evaluate(&self, case: &ProgCase, labels: &mut Labels) -> Verdict {
        let ev = crate::trace::trace_eval("C10", case, labels, false);
        if let Some(lua) = &ev.lua {
            let free = free_temps_assigned_in_functions(lua);
            if !free.is_empty() {
                labels.add("free-temp-global");
                // classification only: e.g. the temporary of a plain assignment (`V9 = e; x = V9`) is a global
                // that is never live across a call, which the property does not forbid
            }
        }
        match (ev.verdict, ev.reference) {
            (Verdict::Pass { .. }, Some(r)) => {
                if r.held_across_reentry > 0 {
                    labels.add("held-across-reentry");
                }
                if r.escaped_closure_calls > 0 {
                    labels.add("closure-outlives-creator");
                }
                Verdict::Pass { nontrivial: r.held_across_reentry > 0 || r.escaped_closure_calls > 0 }
            }
            (v, _) => v,
        }
    }

    fn simplify_at(&self, case: &ProgCase, idx: usize) -> Step<ProgCase> {
        shrink_step(case, idx)
    }
    fn sample(&self, case: &ProgCase) -> serde_json::Value {
        sample_of(case)
    }
    fn rule(&self) -> String {
        "cases: random well-typed programs from the re-entrancy profile (fuel-bounded self recursion of global and local \
         functions whose result expression holds an if-/case-/operand value across the recursive call, closures created per \
         loop iteration and called after the loop, sibling closures sharing a captured variable, closure factories, case \
         bindings captured by closures); oracle: trace of the reference interpreter (fresh cells per activation/iteration, \
         capture by reference) == trace of mini-Lua on the emitted chunk, free (global) compiler temporaries assigned inside functions are counted as a \
         label; non-trivial = in the reference run a value was held in a compound expression while a \
         re-entrant call of the same function ran, or a closure was called after the activation that created it had ended"
            .into()
    }
    fn assumptions(&self) -> Vec<String> {
        vec![
            "mini-Lua agrees with Lua 5.3 on the subset used (./check selftest)".into(),
            "interleavings are those induced by sequential evaluation (Sylt has no threads)".into(),
        ]
    }
    fn health(&self, s: &Stats) -> Result<(), String> {
        if s.evaluations < 200 {
            return Ok(());
        }
        if (s.label("accepted") as f64) < 0.5 * s.evaluations as f64 {
            return Err("fewer than half of the generated programs compile".into());
        }
        if s.label("held-across-reentry") * 20 < s.evaluations || s.label("closure-outlives-creator") * 20 < s.evaluations {
            return Err(format!(
                "interesting classes are rare: held-across-reentry={} closure-outlives-creator={} of {}",
                s.label("held-across-reentry"),
                s.label("closure-outlives-creator"),
                s.evaluations
            ));
        }
        Ok(())
    }
}
