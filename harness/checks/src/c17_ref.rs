//! C17 helper: the independent reference lexer (maximal munch over the documented token set), the
//! independent line index, and the per-input oracle (`judge`).
//!
//! Nothing in here looks at what logos does: the token set is re-stated from the token definitions in
//! `sylt-tokenizer/src/token.rs` (spellings and regular expressions), matching is "longest match, on a tie
//! the fixed spelling wins over the identifier rule", and positions are computed from the text alone.
use sylt_tokenizer::{string_to_tokens, PlacedToken, Token};

// ------------------------------------------------------------------------------------------------
// the documented token set
// ------------------------------------------------------------------------------------------------

/// Every token with a fixed spelling (types, keywords, `nil`, `true`, `false`, operators, punctuation,
/// the newline token and the two conflict markers).
pub const FIXED: &[&str] = &[
    "void", "bool", "int", "float", "str", "nil", "true", "false", "if", "elif", "else", "case", "is", "break", "continue",
    "in", "loop", "blob", "externblob", "enum", "ret", "do", "end", "fn", "pu", "and", "or", "not", "use", "from", "as",
    "external", "+", "-", "*", "/", "+=", "-=", "*=", "/=", "#", ":", "::", ":=", "=", "==", "!=", "<=>", "<!>", "(", ")",
    "[", "]", "{", "}", ">", ">=", "<", "<=", "!", "?", "|", "'", ",", ".", "->", "\n", "<<<<<<<", ">>>>>>>",
];

/// The spelling of a token of the implementation, if it is one of the fixed-spelling tokens.
pub fn spelling(t: &Token) -> Option<&'static str> {
    Some(match t {
        Token::VoidType => "void",
        Token::BoolType => "bool",
        Token::IntType => "int",
        Token::FloatType => "float",
        Token::StrType => "str",
        Token::Nil => "nil",
        Token::Bool(true) => "true",
        Token::Bool(false) => "false",
        Token::If => "if",
        Token::Elif => "elif",
        Token::Else => "else",
        Token::Case => "case",
        Token::Is => "is",
        Token::Break => "break",
        Token::Continue => "continue",
        Token::In => "in",
        Token::Loop => "loop",
        Token::Blob => "blob",
        Token::ExternBlob => "externblob",
        Token::Enum => "enum",
        Token::Ret => "ret",
        Token::Plus => "+",
        Token::Minus => "-",
        Token::Star => "*",
        Token::Slash => "/",
        Token::PlusEqual => "+=",
        Token::MinusEqual => "-=",
        Token::StarEqual => "*=",
        Token::SlashEqual => "/=",
        Token::Hash => "#",
        Token::Colon => ":",
        Token::ColonColon => "::",
        Token::ColonEqual => ":=",
        Token::Equal => "=",
        Token::EqualEqual => "==",
        Token::NotEqual => "!=",
        Token::AssertEqual => "<=>",
        Token::Unreachable => "<!>",
        Token::LeftParen => "(",
        Token::RightParen => ")",
        Token::LeftBracket => "[",
        Token::RightBracket => "]",
        Token::LeftBrace => "{",
        Token::RightBrace => "}",
        Token::Do => "do",
        Token::End => "end",
        Token::Greater => ">",
        Token::GreaterEqual => ">=",
        Token::Less => "<",
        Token::LessEqual => "<=",
        Token::Fn => "fn",
        Token::Pu => "pu",
        Token::And => "and",
        Token::Or => "or",
        Token::Not => "not",
        Token::Bang => "!",
        Token::QuestionMark => "?",
        Token::Pipe => "|",
        Token::Prime => "'",
        Token::Comma => ",",
        Token::Dot => ".",
        Token::Arrow => "->",
        Token::Newline => "\n",
        Token::Use => "use",
        Token::From => "from",
        Token::As => "as",
        Token::External => "external",
        Token::GitConflictBegin => "<<<<<<<",
        Token::GitConflictEnd => ">>>>>>>",
        Token::Identifier(_) | Token::String(_) | Token::Float(_) | Token::Int(_) | Token::Comment(_) => return None,
        Token::Whitespace | Token::EOF | Token::Error => return None,
    })
}

/// A short stable name of a token of the implementation (used in signatures).
pub fn got_name(t: &Token) -> String {
    match t {
        Token::Identifier(_) => "Identifier".into(),
        Token::String(_) => "String".into(),
        Token::Float(_) => "Float".into(),
        Token::Int(_) => "Int".into(),
        Token::Comment(_) => "Comment".into(),
        Token::Whitespace => "Whitespace".into(),
        Token::EOF => "EOF".into(),
        Token::Error => "Error".into(),
        other => show_spelling(spelling(other).unwrap_or("?")),
    }
}

fn show_spelling(s: &str) -> String {
    if s == "\n" {
        "\\n".into()
    } else {
        s.to_string()
    }
}

/// Zero digits of the decimal-digit blocks (general category Nd, ten consecutive code points each) that have
/// been in Unicode since version 12 or earlier: what `\d` means in a (Unicode-aware) regular expression.
const ND_ZEROS: &[u32] = &[
    0x0660, 0x06F0, 0x07C0, 0x0966, 0x09E6, 0x0A66, 0x0AE6, 0x0B66, 0x0BE6, 0x0C66, 0x0CE6, 0x0D66, 0x0DE6, 0x0E50, 0x0ED0,
    0x0F20, 0x1040, 0x1090, 0x17E0, 0x1810, 0x1946, 0x19D0, 0x1A80, 0x1A90, 0x1B50, 0x1BB0, 0x1C40, 0x1C50, 0xA620, 0xA8D0,
    0xA900, 0xA9D0, 0xA9F0, 0xAA50, 0xABF0, 0xFF10, 0x104A0, 0x10D30, 0x11066, 0x110F0, 0x11136, 0x111D0, 0x112F0, 0x11450,
    0x114D0, 0x11650, 0x116C0, 0x11730, 0x118E0, 0x11C50, 0x11D50, 0x11DA0, 0x16A60, 0x16B50, 0x1E140, 0x1E2F0, 0x1E950,
];

pub fn is_known_non_ascii_digit(c: char) -> bool {
    let v = c as u32;
    if v < 0x660 {
        return false;
    }
    if (0x1D7CE..=0x1D7FF).contains(&v) {
        return true;
    }
    ND_ZEROS.iter().any(|z| v >= *z && v < *z + 10)
}

/// What the reference lexer expects at a position.
#[derive(Clone, Debug, PartialEq)]
pub enum Want {
    Fixed(&'static str),
    Ident,
    Str,
    Float(f64),
    Int(i64),
    Comment,
    /// the text is a numeral by the token set, but it has no value (too large for a 64-bit integer, or
    /// written with non-ASCII digits): an error token of exactly the numeral's extent
    BadNumeral,
}

impl Want {
    pub fn name(&self) -> String {
        match self {
            Want::Fixed(s) => show_spelling(s),
            Want::Ident => "Identifier".into(),
            Want::Str => "String".into(),
            Want::Float(_) => "Float".into(),
            Want::Int(_) => "Int".into(),
            Want::Comment => "Comment".into(),
            Want::BadNumeral => "Error(numeral-without-value)".into(),
        }
    }
}

pub struct RefTok {
    pub want: Want,
    /// extent in characters
    pub len: usize,
    /// number of distinct token definitions that match a non-empty prefix here (>= 2: maximal munch /
    /// priority had to decide)
    pub rules: u32,
}

pub struct RefLexer<'a> {
    pub chars: &'a [char],
    /// `\d` also matches the non-ASCII decimal digits
    pub unicode_digits: bool,
}

fn is_ident_start(c: char) -> bool {
    c.is_ascii_alphabetic() || c == '_'
}
fn is_ident_cont(c: char) -> bool {
    c.is_ascii_alphanumeric() || c == '_'
}
pub fn is_skipped(c: char) -> bool {
    c == ' ' || c == '\t' || c == '\r'
}

impl<'a> RefLexer<'a> {
    fn digit(&self, c: char) -> bool {
        c.is_ascii_digit() || (self.unicode_digits && is_known_non_ascii_digit(c))
    }
    fn digits_from(&self, mut i: usize) -> usize {
        let st = i;
        while i < self.chars.len() && self.digit(self.chars[i]) {
            i += 1;
        }
        i - st
    }

    /// The token of the documented token set that starts at character `p` (which is not a skipped
    /// whitespace character), or None when no definition matches there.
    pub fn at(&self, p: usize) -> Option<RefTok> {
        let cs = self.chars;
        let n = cs.len();
        let c = cs[p];
        let mut rules = 0u32;
        // (length, want); candidates are pushed in priority order, a later one must be strictly longer to win
        let mut best: Option<(usize, Want)> = None;
        let mut offer = |len: usize, w: Want, best: &mut Option<(usize, Want)>| {
            rules += 1;
            if best.as_ref().map(|b| len > b.0).unwrap_or(true) {
                *best = Some((len, w));
            }
        };

        // fixed spellings (each spelling is its own definition)
        if c.is_ascii() {
            for f in FIXED {
                let fb = f.as_bytes();
                if fb[0] as char != c || p + fb.len() > n {
                    continue;
                }
                if fb.iter().enumerate().all(|(k, b)| cs[p + k] == *b as char) {
                    offer(fb.len(), Want::Fixed(f), &mut best);
                }
            }
        }
        // identifier: [A-Za-z_][A-Za-z0-9_]*  (a fixed spelling of the same length has priority)
        if is_ident_start(c) {
            let mut i = p + 1;
            while i < n && is_ident_cont(cs[i]) {
                i += 1;
            }
            offer(i - p, Want::Ident, &mut best);
        }
        // string: "[^"]*"
        if c == '"' {
            if let Some(k) = cs[p + 1..].iter().position(|x| *x == '"') {
                offer(k + 2, Want::Str, &mut best);
            }
        }
        // comment: //[^\n]*
        if c == '/' && p + 1 < n && cs[p + 1] == '/' {
            let mut i = p + 2;
            while i < n && cs[i] != '\n' {
                i += 1;
            }
            offer(i - p, Want::Comment, &mut best);
        }
        // numerals. float: \d+\.\d* | \d*\.\d+ | \d+e[-+]?\d+   int: \d+
        let d1 = self.digits_from(p);
        let mut float_len = 0usize;
        if d1 > 0 {
            let q = p + d1;
            if q < n && cs[q] == '.' {
                float_len = d1 + 1 + self.digits_from(q + 1);
            }
            if q < n && cs[q] == 'e' {
                let mut r = q + 1;
                if r < n && (cs[r] == '-' || cs[r] == '+') {
                    r += 1;
                }
                let d2 = self.digits_from(r);
                if d2 > 0 {
                    float_len = float_len.max(r + d2 - p);
                }
            }
        } else if c == '.' {
            let d2 = self.digits_from(p + 1);
            if d2 > 0 {
                float_len = 1 + d2;
            }
        }
        if float_len > 0 {
            let text: String = cs[p..p + float_len].iter().collect();
            let w = match text.parse::<f64>() {
                Ok(v) => Want::Float(v),
                Err(_) => Want::BadNumeral,
            };
            offer(float_len, w, &mut best);
        }
        if d1 > 0 {
            let text: String = cs[p..p + d1].iter().collect();
            let w = match text.parse::<i64>() {
                Ok(v) => Want::Int(v),
                Err(_) => Want::BadNumeral,
            };
            offer(d1, w, &mut best);
        }
        best.map(|(len, want)| RefTok { want, len, rules })
    }
}

// ------------------------------------------------------------------------------------------------
// line index
// ------------------------------------------------------------------------------------------------

/// (line, column) of every character, both 1-based, columns counted in characters from the character
/// after the previous '\n' (a '\n' belongs to the line it ends; '\r' is an ordinary column-occupying
/// character).
pub struct LineIndex {
    pub line: Vec<u32>,
    pub col: Vec<u32>,
    /// character index of the first character of each line (index 0 = line 1)
    pub line_starts: Vec<usize>,
}

impl LineIndex {
    pub fn new(chars: &[char]) -> LineIndex {
        let mut line = Vec::with_capacity(chars.len());
        let mut col = Vec::with_capacity(chars.len());
        let mut line_starts = vec![0usize];
        let (mut l, mut c) = (1u32, 1u32);
        for (i, ch) in chars.iter().enumerate() {
            line.push(l);
            col.push(c);
            if *ch == '\n' {
                l += 1;
                c = 1;
                line_starts.push(i + 1);
            } else {
                c += 1;
            }
        }
        LineIndex { line, col, line_starts }
    }
    /// reported-style position of the character range [s, e), e > s
    pub fn span_of(&self, s: usize, e: usize) -> Pos {
        Pos {
            line_start: self.line[s] as usize,
            col_start: self.col[s] as usize,
            line_end: self.line[e - 1] as usize,
            col_end: self.col[e - 1] as usize + 1,
        }
    }
    /// character index denoted by (line, column); the column may be one past the last character of the line
    pub fn index_of(&self, line: usize, col: usize, total: usize) -> Option<usize> {
        if line == 0 || col == 0 || line > self.line_starts.len() {
            return None;
        }
        let st = self.line_starts[line - 1];
        let en = if line < self.line_starts.len() { self.line_starts[line] } else { total };
        let idx = st + col - 1;
        if idx <= en {
            Some(idx)
        } else {
            None
        }
    }
}

#[derive(Clone, Copy, Debug, PartialEq, Eq)]
pub struct Pos {
    pub line_start: usize,
    pub col_start: usize,
    pub line_end: usize,
    pub col_end: usize,
}

impl Pos {
    fn show(&self) -> String {
        format!("{}:{}..{}:{}", self.line_start, self.col_start, self.line_end, self.col_end)
    }
}

// ------------------------------------------------------------------------------------------------
// oracle
// ------------------------------------------------------------------------------------------------

pub const F_MULTIBYTE: u32 = 1; // the text has a multi-byte character
pub const F_NL_IN_TOKEN: u32 = 2; // a token other than the newline token contains '\n'
pub const F_CONFLICT: u32 = 4; // maximal munch / priority had to decide somewhere
pub const F_ERROR: u32 = 8; // an error token where no definition matches
pub const F_BAD_NUMERAL: u32 = 16; // a numeral without value
pub const F_COMMENT: u32 = 32;
pub const F_STRING: u32 = 64;
pub const F_FLOAT: u32 = 128;
pub const F_KEYWORD: u32 = 256; // a fixed spelling made of letters
pub const F_CR: u32 = 512;
pub const F_MB_BEFORE_TOKEN: u32 = 1024; // a token starts after a multi-byte character on the same line
pub const F_ML_STRING: u32 = 2048; // a (terminated) string literal contains '\n'
pub const F_TOKEN_AFTER_ML: u32 = 4096; // a token follows a token that contains '\n'
pub const FLAG_NAMES: &[(u32, &str)] = &[
    (F_MULTIBYTE, "multibyte-char"),
    (F_NL_IN_TOKEN, "newline-inside-token"),
    (F_CONFLICT, "munch-conflict"),
    (F_ERROR, "error-token"),
    (F_BAD_NUMERAL, "numeral-without-value"),
    (F_COMMENT, "comment"),
    (F_STRING, "string"),
    (F_FLOAT, "float"),
    (F_KEYWORD, "keyword"),
    (F_CR, "carriage-return"),
    (F_MB_BEFORE_TOKEN, "token-after-multibyte-on-line"),
    (F_ML_STRING, "multi-line-string"),
    (F_TOKEN_AFTER_ML, "token-after-multi-line-token"),
];

pub struct Viol {
    /// smaller = reported in preference (so that the two position findings that are explained by "lines
    /// are only counted at newline tokens" never mask anything else)
    pub rank: u8,
    pub signature: String,
    pub detail: String,
}

pub struct Judged {
    pub viol: Option<Viol>,
    pub discard: Option<&'static str>,
    pub ntok: usize,
    pub flags: u32,
}

impl Judged {
    pub fn nontrivial(&self) -> bool {
        self.ntok >= 2 && self.flags & (F_MULTIBYTE | F_NL_IN_TOKEN | F_CONFLICT) != 0
    }
}

fn show_tok(t: &PlacedToken) -> String {
    format!("{:?} @ {}:{}..{}:{}", t.token, t.span.line_start, t.span.col_start, t.span.line_end, t.span.col_end)
}

fn describe_stream(toks: &[PlacedToken]) -> String {
    let mut s = String::new();
    for (i, t) in toks.iter().enumerate().take(40) {
        s.push_str(&format!("    [{}] {}\n", i, show_tok(t)));
    }
    if toks.len() > 40 {
        s.push_str(&format!("    ... {} more\n", toks.len() - 40));
    }
    s
}

/// The whole oracle for one input text.
pub fn judge(src: &str) -> Judged {
    let chars: Vec<char> = src.chars().collect();
    let mut has_na_digit = false;
    for c in &chars {
        if !c.is_ascii() && c.is_numeric() {
            if is_known_non_ascii_digit(*c) {
                has_na_digit = true;
            } else {
                // a numeric character this harness cannot classify as decimal digit or not
                return Judged { viol: None, discard: Some("unclassified-numeric-character"), ntok: 0, flags: 0 };
            }
        }
    }
    let toks = match vcore::guarded(|| string_to_tokens(0, src)) {
        Ok(t) => t,
        Err((m, loc)) => {
            return Judged {
                viol: Some(Viol {
                    rank: 0,
                    signature: format!("C17/panic/{}", loc.trim_start_matches("/repo/")),
                    detail: format!("string_to_tokens panicked on {:?}: {} at {}", src, m, loc),
                }),
                discard: None,
                ntok: 0,
                flags: 0,
            }
        }
    };
    let idx = LineIndex::new(&chars);
    let mut j = walk(src, &chars, &idx, &toks, true);
    if j.viol.is_some() && has_na_digit {
        // the token definitions say `\d`; whether that includes non-ASCII decimal digits is not documented:
        // accept the ASCII reading as well
        let j2 = walk(src, &chars, &idx, &toks, false);
        if j2.viol.is_none() {
            j = j2;
        }
    }
    j
}

fn walk(src: &str, chars: &[char], idx: &LineIndex, toks: &[PlacedToken], unicode_digits: bool) -> Judged {
    let n = chars.len();
    let lexer = RefLexer { chars, unicode_digits };
    let mut flags = 0u32;
    if chars.iter().any(|c| c.len_utf8() > 1) {
        flags |= F_MULTIBYTE;
    }
    if chars.contains(&'\r') {
        flags |= F_CR;
    }
    let mut best: Option<Viol> = None;
    let note = |rank: u8, signature: String, detail: &dyn Fn() -> String, best: &mut Option<Viol>| {
        if best.as_ref().map(|b| rank < b.rank).unwrap_or(true) {
            *best = Some(Viol { rank, signature, detail: detail() });
        }
    };
    let header = |what: &str| -> String { format!("{}\n  input: {:?}\n  tokens reported:\n{}", what, src, describe_stream(toks)) };

    // "lines are only counted at newline tokens" model of the positions (explains the two known findings)
    let mut leg_line = 1usize;
    let mut leg_nl: isize = -1;
    let mut seen_ml_token = false;

    let mut p = 0usize;
    let mut ti = 0usize;
    loop {
        while p < n && is_skipped(chars[p]) {
            p += 1;
        }
        if ti == toks.len() {
            if p < n {
                let want = lexer.at(p).map(|r| r.want.name()).unwrap_or_else(|| "Error".into());
                note(
                    1,
                    "C17/lex/text-not-covered".into(),
                    &|| header(&format!("the token stream ends but character {} ({:?}) is not whitespace; the token set gives {} there", p, chars[p], want)),
                    &mut best,
                );
            }
            break;
        }
        let tok = &toks[ti];
        if p == n {
            note(
                1,
                format!("C17/lex/token-beyond-text/got={}", got_name(&tok.token)),
                &|| header(&format!("token [{}] {} is reported although all text has been consumed", ti, show_tok(tok))),
                &mut best,
            );
            break;
        }
        let reported = Pos {
            line_start: tok.span.line_start,
            col_start: tok.span.col_start,
            line_end: tok.span.line_end,
            col_end: tok.span.col_end,
        };
        let r = lexer.at(p);
        let e: usize;
        let mut end_checked = true;
        match &r {
            Some(rt) => {
                if rt.rules >= 2 {
                    flags |= F_CONFLICT;
                }
                e = p + rt.len;
                let text = &chars[p..e];
                let same = |s: &String, t: &[char]| s.chars().eq(t.iter().copied());
                let verdict: Result<(), String> = match (&rt.want, &tok.token) {
                    (Want::Fixed(s), t) => {
                        if s.as_bytes()[0].is_ascii_alphabetic() {
                            flags |= F_KEYWORD;
                        }
                        if spelling(t) == Some(*s) {
                            Ok(())
                        } else {
                            Err("kind".into())
                        }
                    }
                    (Want::Ident, Token::Identifier(s)) => {
                        if same(s, text) {
                            Ok(())
                        } else {
                            Err("payload".into())
                        }
                    }
                    (Want::Str, Token::String(s)) => {
                        flags |= F_STRING;
                        if text.contains(&'\n') {
                            flags |= F_ML_STRING;
                        }
                        if same(s, &text[1..text.len() - 1]) {
                            Ok(())
                        } else {
                            Err("payload".into())
                        }
                    }
                    (Want::Comment, Token::Comment(s)) => {
                        flags |= F_COMMENT;
                        let body: String = text[2..].iter().collect();
                        if s == body.trim() {
                            Ok(())
                        } else {
                            Err("payload".into())
                        }
                    }
                    (Want::Float(v), Token::Float(w)) => {
                        flags |= F_FLOAT;
                        if v.to_bits() == w.to_bits() {
                            Ok(())
                        } else {
                            Err("payload".into())
                        }
                    }
                    (Want::Int(v), Token::Int(w)) => {
                        if v == w {
                            Ok(())
                        } else {
                            Err("payload".into())
                        }
                    }
                    (Want::BadNumeral, Token::Error) => {
                        flags |= F_BAD_NUMERAL;
                        Ok(())
                    }
                    _ => Err("kind".into()),
                };
                if let Err(class) = verdict {
                    // what follows the reference token is part of the trigger (logos decides on look-ahead bytes)
                    let next = match chars.get(e) {
                        None => "end-of-text",
                        Some(c) if c.is_ascii() => "ascii",
                        Some(_) => "non-ascii",
                    };
                    let sig = if class == "payload" {
                        format!("C17/lex/payload/{}", rt.want.name())
                    } else {
                        format!("C17/lex/kind/want={}/got={}/next={}", rt.want.name(), got_name(&tok.token), next)
                    };
                    let text_s: String = text.iter().collect();
                    let want_dbg = format!("{:?}", rt.want);
                    note(
                        1,
                        sig,
                        &|| {
                            header(&format!(
                                "token [{}] {}: at character {} the longest match of the token set is {} over {:?} ({} characters)",
                                ti,
                                show_tok(tok),
                                p,
                                want_dbg,
                                text_s,
                                text_s.chars().count()
                            ))
                        },
                        &mut best,
                    );
                    break;
                }
            }
            None => {
                if tok.token != Token::Error {
                    note(
                        1,
                        format!("C17/lex/token-where-nothing-matches/got={}", got_name(&tok.token)),
                        &|| header(&format!("token [{}] {}: no definition of the token set matches at character {} ({:?})", ti, show_tok(tok), p, chars[p])),
                        &mut best,
                    );
                    break;
                }
                flags |= F_ERROR;
                // the extent of such an error token is whatever it reports: from its true start to the character
                // position its (line_end, col_end) denotes; "column one past the last character of a line" and
                // "column 1 of the next line" denote the same position and are both accepted
                end_checked = false;
                match idx.index_of(reported.line_end, reported.col_end, n) {
                    Some(b) if b > p && b <= n => e = b,
                    _ => {
                        note(
                            1,
                            "C17/lex/error-token-extent".into(),
                            &|| {
                                header(&format!(
                                    "error token [{}] {} starts at character {} but its end {}:{} is not a position of the text after that character",
                                    ti,
                                    show_tok(tok),
                                    p,
                                    reported.line_end,
                                    reported.col_end
                                ))
                            },
                            &mut best,
                        );
                        break;
                    }
                }
            }
        }

        // ---- positions
        let truth = idx.span_of(p, e);
        let legacy = Pos {
            line_start: leg_line,
            col_start: (p as isize - leg_nl) as usize,
            line_end: leg_line,
            col_end: (e as isize - leg_nl) as usize,
        };
        let spans_lines = tok.token != Token::Newline && chars[p..e].contains(&'\n');
        if seen_ml_token {
            flags |= F_TOKEN_AFTER_ML;
        }
        if spans_lines {
            flags |= F_NL_IN_TOKEN;
        }
        if flags & F_MULTIBYTE != 0 && flags & F_MB_BEFORE_TOKEN == 0 {
            let ls = idx.line_starts[truth.line_start - 1];
            if chars[ls..p].iter().any(|c| c.len_utf8() > 1) {
                flags |= F_MB_BEFORE_TOKEN;
            }
        }
        let eq = |a: &Pos, b: &Pos| -> bool {
            a.line_start == b.line_start && a.col_start == b.col_start && (!end_checked || (a.line_end == b.line_end && a.col_end == b.col_end))
        };
        if !eq(&reported, &truth) {
            let ctx = |what: &str| -> String {
                let text_s: String = chars[p..e].iter().collect();
                header(&format!(
                    "token [{}] {} covers characters {}..{} ({:?}); {}: its text lies at {} but it is reported at {}",
                    ti,
                    show_tok(tok),
                    p,
                    e,
                    text_s,
                    what,
                    truth.show(),
                    reported.show()
                ))
            };
            if eq(&reported, &legacy) {
                if truth.line_start == legacy.line_start && truth.col_start == legacy.col_start {
                    note(
                        4,
                        "C17/position/multiline-token-end".into(),
                        &|| ctx("the token contains a newline, its end is reported as if it lay on the first line"),
                        &mut best,
                    );
                } else {
                    note(
                        3,
                        "C17/position/after-multiline-token".into(),
                        &|| ctx("an earlier token contains a newline that was not counted"),
                        &mut best,
                    );
                }
            } else {
                let field = if reported.line_start != truth.line_start {
                    "line_start"
                } else if reported.col_start != truth.col_start {
                    "col_start"
                } else if reported.line_end != truth.line_end {
                    "line_end"
                } else {
                    "col_end"
                };
                let ls = idx.line_starts[truth.line_start - 1];
                let context = if chars[ls..e].iter().any(|c| c.len_utf8() > 1) {
                    "multibyte-on-line"
                } else if seen_ml_token || spans_lines {
                    "multi-line-token"
                } else {
                    "plain"
                };
                note(2, format!("C17/position/{}/{}", field, context), &|| ctx("wrong position"), &mut best);
            }
        }
        if tok.token == Token::Newline {
            leg_line += 1;
            leg_nl = p as isize;
        }
        if spans_lines {
            seen_ml_token = true;
        }
        p = e;
        ti += 1;
    }
    Judged { viol: best, discard: None, ntok: toks.len(), flags }
}
