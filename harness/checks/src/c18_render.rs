//! C18 helper: runs a history against the plain model (Vec / BTreeMap / BTreeSet / Option / i64 / exact eighths)
//! and renders it as one Sylt program together with the lines that program must print.
use super::types::*;
use std::collections::{BTreeMap, BTreeSet};

pub const PRO: usize = usize::MAX;

#[derive(Clone, Debug)]
pub struct Line {
    pub text: String,
    /// index of the operation that printed the line (`PRO` = prologue, `ops.len()` = epilogue)
    pub op: usize,
    pub tag: &'static str,
    /// universe index of the probed key, if any
    pub key: Option<usize>,
    /// line belongs to the whole-state observation that follows the operation
    pub state: bool,
}

pub struct Rendered {
    pub source: String,
    pub exp: Vec<Line>,
    /// operations actually rendered
    pub ops_run: usize,
    pub absent_lookup: bool,
    pub remove_after_insert: bool,
    pub labels: Vec<String>,
}

struct Em {
    fns: Vec<String>,
    cur: String,
    cur_locals: usize,
    param: String,
    arg: String,
    calls: Vec<String>,
    exp: Vec<Line>,
    op: usize,
    tmp: usize,
    labels: BTreeSet<String>,
}

impl Em {
    fn stmt(&mut self, s: &str) {
        self.cur_locals += 3 * s.matches('(').count() + 2;
        for l in s.lines() {
            self.cur.push_str("    ");
            self.cur.push_str(l);
            self.cur.push('\n');
        }
    }
    fn expect(&mut self, text: String, tag: &'static str, key: Option<usize>, state: bool) {
        self.exp.push(Line { text, op: self.op, tag, key, state });
    }
    fn obs(&mut self, expr: &str, expected: String, tag: &'static str) {
        self.stmt(&format!("print({})", expr));
        self.expect(expected, tag, None, false);
    }
    fn fresh(&mut self, p: &str) -> String {
        self.tmp += 1;
        format!("{}{}", p, self.tmp)
    }
    fn label(&mut self, l: impl Into<String>) {
        self.labels.insert(l.into());
    }
    fn flush(&mut self) {
        if self.cur.is_empty() {
            return;
        }
        let name = format!("step{}", self.fns.len());
        self.fns.push(format!("{} :: fn {} do\n{}end\n", name, self.param, self.cur));
        self.calls.push(format!("    {}({})\n", name, self.arg));
        self.cur.clear();
        self.cur_locals = 0;
    }
    fn boundary(&mut self) {
        if self.cur_locals > 110 {
            self.flush();
        }
    }
}

// ---------------------------------------------------------------------------------------------------
// lambdas: model + source
// ---------------------------------------------------------------------------------------------------

fn pred_ok(p: &Pred, ty: &Ty, uni: &[Val]) -> bool {
    match p {
        Pred::Never | Pred::Always => true,
        Pred::Eq(k) | Pred::Ne(k) | Pred::EqViaGet(k) | Pred::NeViaFilter(k) | Pred::NeViaGet(k) => *k < uni.len(),
        Pred::Lt(k) | Pred::Gt(k) => *k < uni.len() && *ty == Ty::Int,
        Pred::FstEq(k) => *k < uni.len() && matches!(ty, Ty::Tup(_)),
    }
}
fn pred_eval(p: &Pred, x: &Val, uni: &[Val]) -> bool {
    match p {
        Pred::Never => false,
        Pred::Always => true,
        Pred::Eq(k) | Pred::EqViaGet(k) => *x == uni[*k],
        Pred::NeViaFilter(k) | Pred::NeViaGet(k) => *x != uni[*k],
        Pred::Ne(k) => *x != uni[*k],
        Pred::Lt(k) => x < &uni[*k],
        Pred::Gt(k) => x > &uni[*k],
        Pred::FstEq(k) => match (x, &uni[*k]) {
            (Val::Tup(a), Val::Tup(b)) => a[0] == b[0],
            _ => false,
        },
    }
}
fn pred_body(p: &Pred, uni: &[Val]) -> String {
    match p {
        Pred::Never => "false".into(),
        Pred::Always => "true".into(),
        Pred::Eq(k) => format!("x == {}", uni[*k].lit_atom()),
        Pred::EqViaGet(k) => format!("list.get([{}], 0) == Maybe.Just x", uni[*k].lit()),
        Pred::NeViaGet(k) => format!("list.get([{}], 0) != Maybe.Just x", uni[*k].lit()),
        Pred::NeViaFilter(k) => format!("filter([{}], pu y -> bool\n        y == x\n    end) == []", uni[*k].lit()),
        Pred::Ne(k) => format!("x != {}", uni[*k].lit_atom()),
        Pred::Lt(k) => format!("x < {}", uni[*k].lit_atom()),
        Pred::Gt(k) => format!("x > {}", uni[*k].lit_atom()),
        Pred::FstEq(k) => match &uni[*k] {
            Val::Tup(b) => format!("x[0] == {}", b[0].lit_atom()),
            _ => "false".into(),
        },
    }
}
fn pred_src(p: &Pred, ty: &Ty, uni: &[Val]) -> String {
    format!("pu x: {} -> bool\n    {}\nend", ty.src(), pred_body(p, uni))
}

fn map_out_ty(f: &MapFn, ty: &Ty, uni: &[Val]) -> Option<Ty> {
    match f {
        MapFn::Id => Some(ty.clone()),
        MapFn::Add(k) if *k < uni.len() && matches!(ty, Ty::Int | Ty::Str) => Some(ty.clone()),
        MapFn::Add(_) => None,
        MapFn::Pair => Some(Ty::Tup(vec![ty.clone(), ty.clone()])),
        MapFn::Fst => match ty {
            Ty::Tup(ts) => Some(ts[0].clone()),
            _ => None,
        },
        MapFn::IsEq(k) if *k < uni.len() => Some(Ty::Bool),
        MapFn::IsEq(_) => None,
    }
}
fn map_eval(f: &MapFn, x: &Val, uni: &[Val]) -> Val {
    match f {
        MapFn::Id => x.clone(),
        MapFn::Add(k) => match (x, &uni[*k]) {
            (Val::Int(a), Val::Int(b)) => Val::Int(a.wrapping_add(*b)),
            (Val::Str(a), Val::Str(b)) => Val::Str(format!("{}{}", a, b)),
            _ => x.clone(),
        },
        MapFn::Pair => Val::Tup(vec![x.clone(), x.clone()]),
        MapFn::Fst => match x {
            Val::Tup(a) => a[0].clone(),
            _ => x.clone(),
        },
        MapFn::IsEq(k) => Val::Bool(*x == uni[*k]),
    }
}
fn map_src(f: &MapFn, ty: &Ty, out: &Ty, uni: &[Val]) -> String {
    let body = match f {
        MapFn::Id => "x".to_string(),
        MapFn::Add(k) => format!("x + {}", uni[*k].lit_atom()),
        MapFn::Pair => "(x, x)".to_string(),
        MapFn::Fst => "x[0]".to_string(),
        MapFn::IsEq(k) => format!("x == {}", uni[*k].lit_atom()),
    };
    format!("pu x: {} -> {}\n    {}\nend", ty.src(), out.src(), body)
}

/// (init literal, out type, body) or None when the function does not fit the element type
fn fold_parts(f: &FoldFn, ty: &Ty) -> Option<(Val, Ty, &'static str)> {
    let fst_int = matches!(ty, Ty::Tup(ts) if ts[0] == Ty::Int);
    match f {
        FoldFn::Count(i) => Some((Val::Int(*i), Ty::Int, "a + 1")),
        FoldFn::Sum(i) if *ty == Ty::Int => Some((Val::Int(*i), Ty::Int, "x + a")),
        FoldFn::SubAcc(i) if *ty == Ty::Int => Some((Val::Int(*i), Ty::Int, "a - x")),
        FoldFn::Poly(i) if *ty == Ty::Int => Some((Val::Int(*i), Ty::Int, "a * 2 + x")),
        FoldFn::CatAccItem if *ty == Ty::Str => Some((Val::Str(String::new()), Ty::Str, "a + x")),
        FoldFn::CatItemAcc if *ty == Ty::Str => Some((Val::Str(String::new()), Ty::Str, "x + a")),
        FoldFn::SumFst(i) if fst_int => Some((Val::Int(*i), Ty::Int, "a + x[0]")),
        _ => None,
    }
}
fn fold_step(f: &FoldFn, x: &Val, a: Val) -> Val {
    match (f, x, a) {
        (FoldFn::Count(_), _, Val::Int(a)) => Val::Int(a.wrapping_add(1)),
        (FoldFn::Sum(_), Val::Int(x), Val::Int(a)) => Val::Int(x.wrapping_add(a)),
        (FoldFn::SubAcc(_), Val::Int(x), Val::Int(a)) => Val::Int(a.wrapping_sub(*x)),
        (FoldFn::Poly(_), Val::Int(x), Val::Int(a)) => Val::Int(a.wrapping_mul(2).wrapping_add(*x)),
        (FoldFn::CatAccItem, Val::Str(x), Val::Str(a)) => Val::Str(format!("{}{}", a, x)),
        (FoldFn::CatItemAcc, Val::Str(x), Val::Str(a)) => Val::Str(format!("{}{}", x, a)),
        (FoldFn::SumFst(_), Val::Tup(t), Val::Int(a)) => match &t[0] {
            Val::Int(x) => Val::Int(a.wrapping_add(*x)),
            _ => Val::Int(a),
        },
        (_, _, a) => a,
    }
}

// ---------------------------------------------------------------------------------------------------
// Maybe observations
// ---------------------------------------------------------------------------------------------------

/// a Maybe value of the model: the option and whether a `None` was made by the library (Lua side)
#[derive(Clone)]
struct MVal {
    v: Option<Val>,
    lib_none: bool,
}

fn observe_maybe(em: &mut Em, name: &str, m: &MVal) {
    em.obs(name, show_maybe(&m.v), "maybe-print");
    match &m.v {
        Some(v) => {
            em.obs(&format!("{} == Maybe.Just {}", name, v.lit_atom()), "true".into(), "eq-source-just");
            em.label("obs:eq-source-just");
        }
        None => {
            em.obs(&format!("{} == Maybe.None", name), "true".into(), "eq-source-none");
            em.label(if m.lib_none { "obs:eq-source-none(library-made)" } else { "obs:eq-source-none(source-made)" });
        }
    }
    em.obs(&format!("maybe.isJust({})", name), format!("{}", m.v.is_some()), "is-just");
}

// ---------------------------------------------------------------------------------------------------
// the interpreter
// ---------------------------------------------------------------------------------------------------

/// keys of the universe that may be used: with `avoid_key_collision`, a key whose printed text equals that of
/// an earlier, different key is unusable (dict/set only)
pub fn usable_keys(case: &Case) -> Vec<bool> {
    let mut ok = vec![true; case.universe.len()];
    for i in 0..case.universe.len() {
        if !case.universe[i].has_type(&case.elem) {
            ok[i] = false;
            continue;
        }
        for j in 0..i {
            if !ok[j] {
                continue;
            }
            if case.universe[j] == case.universe[i] {
                ok[i] = false;
            } else if matches!(case.kind, Kind::Dict | Kind::Set) && case.sw.avoid_key_collision && case.universe[j].show() == case.universe[i].show() {
                ok[i] = false;
            }
        }
    }
    ok
}

/// classes of distinct usable keys that print the same text (dict/set only)
pub fn colliding(case: &Case) -> Vec<bool> {
    let ok = usable_keys(case);
    let n = case.universe.len();
    let mut c = vec![false; n];
    if !matches!(case.kind, Kind::Dict | Kind::Set) {
        return c;
    }
    for i in 0..n {
        for j in 0..n {
            if i != j && ok[i] && ok[j] && case.universe[i] != case.universe[j] && case.universe[i].show() == case.universe[j].show() {
                c[i] = true;
            }
        }
    }
    c
}

fn floor_div(a: i64, b: i64) -> i64 {
    let q = a / b;
    if a % b != 0 && ((a < 0) != (b < 0)) {
        q - 1
    } else {
        q
    }
}

const LIM: i64 = 1 << 31;

pub fn render(case: &Case) -> Rendered {
    let ok = usable_keys(case);
    let uni = &case.universe;
    let ety = &case.elem;
    let (cname, cty) = match case.kind {
        Kind::List => ("c", format!("[{}]", ety.src())),
        Kind::Dict => ("c", format!("dict.Dict({}, {})", ety.src(), case.vty.src())),
        Kind::Set => ("c", format!("set.Set({})", ety.src())),
        Kind::MaybeMath => ("xs", format!("[{}]", ety.src())),
    };
    let mut em = Em {
        fns: Vec::new(),
        cur: String::new(),
        cur_locals: 0,
        param: format!("{}: {}", cname, cty),
        arg: cname.to_string(),
        calls: Vec::new(),
        exp: Vec::new(),
        op: PRO,
        tmp: 0,
        labels: BTreeSet::new(),
    };
    let key_ok = |k: usize| k < uni.len() && ok[k];
    let val_ok = |v: usize| v < case.vals.len() && case.vals[v].has_type(&case.vty);

    // model state
    let mut list: Vec<Val> = Vec::new();
    let mut dict: BTreeMap<Val, Val> = BTreeMap::new();
    let mut set: BTreeSet<Val> = BTreeSet::new();
    let mut ever_inserted: BTreeSet<Val> = BTreeSet::new();
    let mut pushed_since_start = false;
    let mut absent_lookup = false;
    let mut remove_after_insert = false;

    // ---- prologue (inside `start`)
    let mut start = String::new();
    let mut probe_fn = String::new();
    match case.kind {
        Kind::List | Kind::MaybeMath => {
            for (k, _) in &case.init {
                if key_ok(*k) {
                    list.push(uni[*k].clone());
                }
            }
            start.push_str(&format!("    {}: {} = {}\n", cname, cty, lit_list(&list)));
        }
        Kind::Dict => {
            let mut pairs = Vec::new();
            for (k, v) in &case.init {
                if key_ok(*k) && val_ok(*v) {
                    pairs.push(format!("({}, {})", uni[*k].lit(), case.vals[*v].lit()));
                    dict.insert(uni[*k].clone(), case.vals[*v].clone());
                    ever_inserted.insert(uni[*k].clone());
                }
            }
            if case.from_list {
                start.push_str(&format!("    {}: {} = dict.from_list([{}])\n", cname, cty, pairs.join(", ")));
                em.label("dict:from_list");
            } else {
                dict.clear();
                ever_inserted.clear();
                start.push_str(&format!("    {}: {} = dict.new()\n", cname, cty));
            }
        }
        Kind::Set => {
            let mut items = Vec::new();
            for (k, _) in &case.init {
                if key_ok(*k) {
                    items.push(uni[*k].lit());
                    set.insert(uni[*k].clone());
                    ever_inserted.insert(uni[*k].clone());
                }
            }
            if case.from_list {
                start.push_str(&format!("    {}: {} = set.from_list([{}])\n", cname, cty, items.join(", ")));
                em.label("set:from_list");
            } else {
                set.clear();
                ever_inserted.clear();
                start.push_str(&format!("    {}: {} = set.new()\n", cname, cty));
            }
        }
    }
    // the whole-state observation
    let probe_keys: Vec<usize> = (0..uni.len()).filter(|k| ok[*k]).collect();
    match case.kind {
        Kind::Dict => {
            probe_fn.push_str(&format!("probe :: fn c: {} do\n    print(dict.len(c))\n", cty));
            for k in &probe_keys {
                probe_fn.push_str(&format!("    print(dict.get(c, {}))\n    print(dict.contains_key(c, {}))\n", uni[*k].lit(), uni[*k].lit()));
            }
            probe_fn.push_str("end\n");
        }
        Kind::Set => {
            probe_fn.push_str(&format!("probe :: fn c: {} do\n    print(set.len(c))\n", cty));
            for k in &probe_keys {
                probe_fn.push_str(&format!("    print(set.contains(c, {}))\n", uni[*k].lit()));
            }
            probe_fn.push_str("end\n");
        }
        _ => {}
    }
    macro_rules! state_obs {
        ($em:expr, $in_start:expr) => {{
            match case.kind {
                Kind::List => {
                    if $in_start {
                        start.push_str("    print(c)\n");
                    } else {
                        $em.stmt("print(c)");
                    }
                    $em.expect(show_list(&list), "state-list", None, true);
                }
                Kind::Dict => {
                    if $in_start {
                        start.push_str("    probe(c)\n");
                    } else {
                        $em.stmt("probe(c)");
                    }
                    $em.expect(format!("{}", dict.len()), "state-len", None, true);
                    for k in &probe_keys {
                        $em.expect(show_maybe(&dict.get(&uni[*k]).cloned()), "state-get", Some(*k), true);
                        $em.expect(format!("{}", dict.contains_key(&uni[*k])), "state-contains", Some(*k), true);
                    }
                }
                Kind::Set => {
                    if $in_start {
                        start.push_str("    probe(c)\n");
                    } else {
                        $em.stmt("probe(c)");
                    }
                    $em.expect(format!("{}", set.len()), "state-len", None, true);
                    for k in &probe_keys {
                        $em.expect(format!("{}", set.contains(&uni[*k])), "state-contains", Some(*k), true);
                    }
                }
                Kind::MaybeMath => {}
            }
        }};
    }
    state_obs!(em, true);

    // ---- operations
    let mut ops_run = 0usize;
    for (idx, op) in case.ops.iter().enumerate() {
        em.op = idx;
        em.boundary();
        let before = em.exp.len();
        match (case.kind, op) {
            // ------------------------------------------------------------------ list
            (Kind::List, Op::Push(k)) if key_ok(*k) => {
                em.stmt(&format!("list.push(c, {})", uni[*k].lit()));
                list.push(uni[*k].clone());
                pushed_since_start = true;
            }
            (Kind::List, Op::Prepend(k)) if key_ok(*k) => {
                em.stmt(&format!("list.prepend(c, {})", uni[*k].lit()));
                list.insert(0, uni[*k].clone());
                pushed_since_start = true;
            }
            (Kind::List, Op::Pop) => {
                let m = em.fresh("m");
                em.stmt(&format!("{} :: list.pop(c)", m));
                let v = list.pop();
                if v.is_none() {
                    absent_lookup = true;
                    em.label("list:pop-empty");
                } else if pushed_since_start {
                    remove_after_insert = true;
                }
                observe_maybe(&mut em, &m, &MVal { v, lib_none: true });
            }
            (Kind::List, Op::Get(i)) => {
                let m = em.fresh("m");
                em.stmt(&format!("{} :: list.get(c, {})", m, i));
                let v = if *i >= 0 { list.get(*i as usize).cloned() } else { None };
                if v.is_none() {
                    absent_lookup = true;
                    em.label(if *i < 0 { "list:get-negative" } else { "list:get-beyond-end" });
                } else {
                    em.label("list:get-hit");
                }
                observe_maybe(&mut em, &m, &MVal { v, lib_none: true });
            }
            (Kind::List, Op::Set(i, k)) if key_ok(*k) => {
                // an index outside 0..len-1 names no element: the list stays as it is (what `set` does for an index past
                // the end, and the only reading under which `len`, `get`, `fold` and printing stay consistent)
                em.stmt(&format!("list.set(c, {}, {})", i, uni[*k].lit()));
                if *i < 0 || *i as usize >= list.len() {
                    em.label(if *i < 0 { "list:set-negative-index" } else { "list:set-beyond-end" });
                } else {
                    list[*i as usize] = uni[*k].clone();
                }
                let tag = if *i < 0 {
                    "len-after-set-at-negative-index"
                } else if *i as usize >= list.len() {
                    "len-after-set-beyond-end"
                } else {
                    "len-after-set"
                };
                em.obs("list.len(c)", format!("{}", list.len()), tag);
            }
            (Kind::List, Op::Len) => {
                em.obs("list.len(c)", format!("{}", list.len()), "len");
            }
            (Kind::List, Op::Map(f)) => {
                let out = match map_out_ty(f, ety, uni) {
                    Some(o) => o,
                    None => continue,
                };
                let r = em.fresh("r");
                em.stmt(&format!("{} :: map(c, {})", r, map_src(f, ety, &out, uni)));
                let mut res: Vec<Val> = list.iter().map(|x| map_eval(f, x, uni)).collect();
                em.obs(&r, show_list(&res), "map-result");
                // the result is a list of its own: changing it does not change the source list
                if out == *ety {
                    if let Some(k) = (0..uni.len()).find(|k| key_ok(*k)) {
                        em.stmt(&format!("list.push({}, {})", r, uni[k].lit()));
                        res.push(uni[k].clone());
                        em.obs(&r, show_list(&res), "map-result-after-push");
                        em.obs("c", show_list(&list), "source-after-push-to-map-result");
                    }
                }
            }
            (Kind::List, Op::Filter(p)) if pred_ok(p, ety, uni) => {
                let r = em.fresh("r");
                em.stmt(&format!("{} :: filter(c, {})", r, pred_src(p, ety, uni)));
                let mut res: Vec<Val> = list.iter().filter(|x| pred_eval(p, x, uni)).cloned().collect();
                em.obs(&r, show_list(&res), "filter-result");
                // the result is a list of its own: changing it does not change the source list
                if let Some(k) = (0..uni.len()).find(|k| key_ok(*k)) {
                    em.stmt(&format!("list.push({}, {})", r, uni[k].lit()));
                    res.push(uni[k].clone());
                    em.obs(&r, show_list(&res), "filter-result-after-push");
                    em.obs("c", show_list(&list), "source-after-push-to-filter-result");
                    em.label(if res.len() == list.len() + 1 { "filter:kept-everything-then-mutated" } else { "filter:dropped-some-then-mutated" });
                }
            }
            (Kind::List, Op::Fold(f)) => {
                let (init, out, body) = match fold_parts(f, ety) {
                    Some(x) => x,
                    None => continue,
                };
                let r = em.fresh("r");
                em.stmt(&format!("{} :: fold(c, {}, pu x: {}, a: {} -> {}\n    {}\nend)", r, init.lit_atom(), ety.src(), out.src(), out.src(), body));
                let mut acc = init.clone();
                for x in &list {
                    acc = fold_step(f, x, acc);
                }
                em.obs(&format!("{} == {}", r, acc.lit_atom()), "true".into(), "fold-result-eq");
                em.obs(&r, acc.show(), "fold-result");
            }
            (Kind::List, Op::Find(p)) if pred_ok(p, ety, uni) => {
                let m = em.fresh("m");
                em.stmt(&format!("{} :: list.find(c, {})", m, pred_src(p, ety, uni)));
                let v = list.iter().find(|x| pred_eval(p, x, uni)).cloned();
                if v.is_none() {
                    absent_lookup = true;
                    em.label("list:find-miss");
                } else {
                    em.label("list:find-hit");
                }
                observe_maybe(&mut em, &m, &MVal { v, lib_none: true });
            }
            (Kind::List, Op::Contains(k)) if key_ok(*k) => {
                let hit = list.contains(&uni[*k]);
                if !hit {
                    absent_lookup = true;
                }
                em.label(if hit { "list:contains-hit" } else { "list:contains-miss" });
                em.obs(&format!("list.contains(c, {})", uni[*k].lit()), format!("{}", hit), "contains");
            }
            (Kind::List, Op::Last) => {
                let m = em.fresh("m");
                em.stmt(&format!("{} :: list.last(c)", m));
                let v = list.last().cloned();
                if v.is_none() {
                    absent_lookup = true;
                    em.label("list:last-empty");
                }
                observe_maybe(&mut em, &m, &MVal { v, lib_none: true });
            }
            // ------------------------------------------------------------------ dict
            (Kind::Dict, Op::Update(k, v)) if key_ok(*k) && val_ok(*v) => {
                em.stmt(&format!("dict.update(c, {}, {})", uni[*k].lit(), case.vals[*v].lit()));
                em.label(if dict.contains_key(&uni[*k]) { "dict:update-existing" } else { "dict:update-new" });
                dict.insert(uni[*k].clone(), case.vals[*v].clone());
                ever_inserted.insert(uni[*k].clone());
            }
            (Kind::Dict, Op::Lookup(k)) if key_ok(*k) => {
                let m = em.fresh("m");
                em.stmt(&format!("{} :: dict.get(c, {})", m, uni[*k].lit()));
                let v = dict.get(&uni[*k]).cloned();
                if v.is_none() {
                    absent_lookup = true;
                    em.label(if ever_inserted.contains(&uni[*k]) { "dict:get-after-remove" } else { "dict:get-miss" });
                } else {
                    em.label("dict:get-hit");
                }
                let dflt = case.vty.zero();
                let od = v.clone().unwrap_or_else(|| dflt.clone());
                observe_maybe(&mut em, &m, &MVal { v, lib_none: true });
                em.obs(&format!("maybe.orDefault({}, {}) == {}", m, dflt.lit_atom(), od.lit_atom()), "true".into(), "or-default");
            }
            (Kind::Dict, Op::Remove(k)) if key_ok(*k) => {
                em.stmt(&format!("dict.remove(c, {})", uni[*k].lit()));
                if dict.remove(&uni[*k]).is_some() {
                    remove_after_insert = true;
                    em.label(if *ety == Ty::Str { "dict:remove-present(str-key)" } else { "dict:remove-present(non-str-key)" });
                } else {
                    em.label("dict:remove-absent");
                }
            }
            (Kind::Dict, Op::Len) => {
                em.obs("dict.len(c)", format!("{}", dict.len()), "len");
            }
            (Kind::Dict, Op::Contains(k)) if key_ok(*k) => {
                let hit = dict.contains_key(&uni[*k]);
                if !hit {
                    absent_lookup = true;
                }
                em.obs(&format!("dict.contains_key(c, {})", uni[*k].lit()), format!("{}", hit), "contains");
            }
            // ------------------------------------------------------------------ set
            (Kind::Set, Op::Add(k)) if key_ok(*k) => {
                em.stmt(&format!("set.add(c, {})", uni[*k].lit()));
                em.label(if set.contains(&uni[*k]) { "set:add-existing" } else { "set:add-new" });
                set.insert(uni[*k].clone());
                ever_inserted.insert(uni[*k].clone());
            }
            (Kind::Set, Op::Remove(k)) if key_ok(*k) => {
                em.stmt(&format!("set.remove(c, {})", uni[*k].lit()));
                if set.remove(&uni[*k]) {
                    remove_after_insert = true;
                    em.label("set:remove-present");
                } else {
                    em.label("set:remove-absent");
                }
            }
            (Kind::Set, Op::Contains(k)) if key_ok(*k) => {
                let hit = set.contains(&uni[*k]);
                if !hit {
                    absent_lookup = true;
                }
                em.label(if hit { "set:contains-hit" } else { "set:contains-miss" });
                em.obs(&format!("set.contains(c, {})", uni[*k].lit()), format!("{}", hit), "contains");
            }
            (Kind::Set, Op::Len) => {
                em.obs("set.len(c)", format!("{}", set.len()), "len");
            }
            // ------------------------------------------------------------------ math
            (Kind::MaybeMath, Op::Math(m)) => {
                if !render_math(&mut em, m) {
                    continue;
                }
            }
            // ------------------------------------------------------------------ maybe
            (Kind::MaybeMath, Op::May(src, helper)) => {
                let (expr, mv) = match src {
                    MSrc::SrcJust(k) if key_ok(*k) => (format!("Maybe.Just {}", uni[*k].lit_atom()), MVal { v: Some(uni[*k].clone()), lib_none: false }),
                    MSrc::SrcNone => ("Maybe.None".to_string(), MVal { v: None, lib_none: false }),
                    MSrc::LibGet(i) => {
                        let v = if *i >= 0 { list.get(*i as usize).cloned() } else { None };
                        (format!("list.get(xs, {})", i), MVal { v, lib_none: true })
                    }
                    MSrc::LibFind(p) if pred_ok(p, ety, uni) => {
                        let v = list.iter().find(|x| pred_eval(p, x, uni)).cloned();
                        (format!("list.find(xs, {})", pred_src(p, ety, uni)), MVal { v, lib_none: true })
                    }
                    _ => continue,
                };
                if mv.v.is_none() && mv.lib_none {
                    absent_lookup = true;
                }
                let m = em.fresh("m");
                // a source-written None needs its type
                let decl = if matches!(src, MSrc::SrcNone) { format!("{}: Maybe({}) : {}", m, ety.src(), expr) } else { format!("{} :: {}", m, expr) };
                match helper {
                    MHelper::Observe => {
                        em.stmt(&decl);
                        observe_maybe(&mut em, &m, &mv);
                        em.obs(&format!("maybe.isNone({})", m), format!("{}", mv.v.is_none()), "is-none");
                    }
                    MHelper::OrDefault(d) if key_ok(*d) => {
                        em.stmt(&decl);
                        let r = mv.v.clone().unwrap_or_else(|| uni[*d].clone());
                        em.obs(&format!("maybe.orDefault({}, {}) == {}", m, uni[*d].lit(), r.lit_atom()), "true".into(), "or-default-eq");
                        em.obs(&format!("maybe.orDefault({}, {})", m, uni[*d].lit()), r.show(), "or-default");
                    }
                    MHelper::Map(f) => {
                        let out = match map_out_ty(f, ety, uni) {
                            Some(o) => o,
                            None => continue,
                        };
                        em.stmt(&decl);
                        let r = em.fresh("m");
                        em.stmt(&format!("{} :: maybe.map({}, {})", r, m, map_src(f, ety, &out, uni)));
                        // maybe.map is written in Sylt: a None it returns is a source-made None
                        let rv = MVal { v: mv.v.as_ref().map(|x| map_eval(f, x, uni)), lib_none: false };
                        observe_maybe(&mut em, &r, &rv);
                    }
                    MHelper::AndThen(p) if pred_ok(p, ety, uni) => {
                        em.stmt(&decl);
                        let r = em.fresh("m");
                        em.stmt(&format!(
                            "{} :: maybe.andThen({}, pu x: {} -> Maybe({})\n    if {} do Maybe.Just x else Maybe.None end\nend)",
                            r,
                            m,
                            ety.src(),
                            ety.src(),
                            pred_body(p, uni)
                        ));
                        let rv = MVal { v: mv.v.clone().filter(|x| pred_eval(p, x, uni)), lib_none: false };
                        observe_maybe(&mut em, &r, &rv);
                    }
                    MHelper::Flatten => {
                        em.stmt(&decl);
                        let r = em.fresh("m");
                        em.stmt(&format!("{} :: maybe.flatten(Maybe.Just {})", r, m));
                        // flatten(Just m) hands back m itself
                        observe_maybe(&mut em, &r, &mv);
                    }
                    _ => continue,
                }
            }
            _ => continue,
        }
        ops_run += 1;
        em.label(format!("op:{}:{}", case.kind.name(), op.name()));
        state_obs!(em, false);
        debug_assert!(em.exp.len() >= before);
    }
    em.flush();

    // ---- epilogue: a container rebuilt from the model's contents is equal to the container
    let mut epilogue = String::new();
    em.op = case.ops.len();
    match case.kind {
        Kind::Dict => {
            let pairs: Vec<String> = dict.iter().map(|(k, v)| format!("({}, {})", k.lit(), v.lit())).collect();
            epilogue.push_str(&format!("    rebuilt: {} = dict.from_list([{}])\n    print(c == rebuilt)\n", cty, pairs.join(", ")));
            em.expect("true".into(), "eq-rebuilt", None, false);
        }
        Kind::Set => {
            let items: Vec<String> = set.iter().map(|k| k.lit()).collect();
            epilogue.push_str(&format!("    rebuilt: {} = set.from_list([{}])\n    print(c == rebuilt)\n", cty, items.join(", ")));
            em.expect("true".into(), "eq-rebuilt", None, false);
        }
        Kind::List => {
            epilogue.push_str(&format!("    print(c == {})\n", if list.is_empty() { "[]".to_string() } else { lit_list(&list) }));
            em.expect("true".into(), "eq-rebuilt", None, false);
        }
        Kind::MaybeMath => {}
    }

    let mut source = String::new();
    source.push_str(&probe_fn);
    for f in &em.fns {
        source.push_str(f);
    }
    source.push_str("start :: fn do\n");
    source.push_str(&start);
    for c in &em.calls {
        source.push_str(c);
    }
    source.push_str(&epilogue);
    source.push_str("end\n");

    em.label(format!("kind:{}", case.kind.name()));
    em.label(format!("elem:{}", ety.name()));
    if colliding(case).iter().any(|c| *c) {
        em.label("universe:colliding-keys");
    }
    Rendered { source, exp: em.exp, ops_run, absent_lookup, remove_after_insert, labels: em.labels.into_iter().collect() }
}

/// renders one math helper call; false = the input is outside the specified domain (skipped, labelled)
fn render_math(em: &mut Em, m: &MathOp) -> bool {
    let same = |a: &Num, b: &Num| a.is_float() == b.is_float();
    let in_range = |n: &Num| n.raw().abs() <= LIM;
    match m {
        MathOp::Min(a, b) | MathOp::Max(a, b) => {
            if !same(a, b) || !in_range(a) || !in_range(b) {
                return false;
            }
            let is_min = matches!(m, MathOp::Min(..));
            let r = if is_min { a.raw().min(b.raw()) } else { a.raw().max(b.raw()) };
            let f = if is_min { "min" } else { "max" };
            let call = format!("{}({}, {})", f, a.lit(), b.lit());
            let rel = if is_min { "<=" } else { ">=" };
            em.obs(&format!("{} == {}", call, a.with_raw(r).lit()), "true".into(), "math-eq");
            em.obs(&format!("{} {} {}", call, rel, a.lit()), "true".into(), "math-order");
            em.obs(&format!("{} {} {}", call, rel, b.lit()), "true".into(), "math-order");
        }
        MathOp::Abs(a) => {
            if !in_range(a) {
                return false;
            }
            let call = format!("abs({})", a.lit());
            em.obs(&format!("{} == {}", call, a.with_raw(a.raw().abs()).lit()), "true".into(), "math-eq");
            em.obs(&format!("{} >= {}", call, a.zero_lit()), "true".into(), "math-order");
        }
        MathOp::Clamp(x, lo, hi) => {
            if !same(x, lo) || !same(x, hi) || !in_range(x) || !in_range(lo) || !in_range(hi) {
                return false;
            }
            if lo.raw() > hi.raw() {
                em.label("excluded:clamp-lo-greater-than-hi");
                return false;
            }
            let r = x.raw().clamp(lo.raw(), hi.raw());
            let call = format!("clamp({}, {}, {})", x.lit(), lo.lit(), hi.lit());
            em.obs(&format!("{} == {}", call, x.with_raw(r).lit()), "true".into(), "math-eq");
            em.obs(&format!("{} >= {}", call, lo.lit()), "true".into(), "math-order");
            em.obs(&format!("{} <= {}", call, hi.lit()), "true".into(), "math-order");
        }
        MathOp::Sign(x) => {
            if !in_range(x) {
                return false;
            }
            if x.raw() == 0 {
                em.label("excluded:sign-of-zero");
                return false;
            }
            let r = match x {
                Num::I(i) => Num::I(i.signum()),
                Num::F(n) => Num::F(n.signum() * 8),
            };
            em.obs(&format!("sign({}) == {}", x.lit(), r.lit()), "true".into(), "math-eq");
        }
        MathOp::Div(a, b) => {
            if a.abs() > LIM || b.abs() > LIM {
                return false;
            }
            if *b == 0 {
                em.label("excluded:div-by-zero");
                return false;
            }
            let q = em.fresh("q");
            em.stmt(&format!("{} :: div({}, {})", q, a, b));
            // whichever way an inexact negative quotient is rounded, the result is within one divisor of a
            em.obs(&format!("abs({} - {} * {}) < abs({})", a, q, Val::Int(*b).lit_atom(), b), "true".into(), "div-within-one-divisor");
            let exact = a % b == 0;
            // C18_DIV_ROUNDS_DOWN=1 (developer switch, off by default) additionally treats rounding toward negative
            // infinity as the contract for negative inexact quotients; neither docs nor signature say so
            let rounds_down = std::env::var("C18_DIV_ROUNDS_DOWN").map(|v| v == "1").unwrap_or(false);
            if exact || ((*a < 0) == (*b < 0)) || *a == 0 || rounds_down {
                em.obs(&format!("{} == {}", q, floor_div(*a, *b)), "true".into(), "math-eq");
                em.label(if *a < 0 || *b < 0 { "div:negative-operand-specified" } else { "div:non-negative" });
            } else {
                em.label("excluded:div-rounding-of-negative-inexact-quotient");
            }
        }
        MathOp::Floor(x) => {
            if !in_range(x) {
                return false;
            }
            let r = match x {
                Num::I(i) => *i,
                Num::F(n) => n.div_euclid(8),
            };
            em.obs(&format!("floor({}) == {}", x.lit(), r), "true".into(), "math-eq");
            if let Num::F(n) = x {
                em.label(if *n < 0 && n % 8 != 0 { "floor:negative-fraction" } else { "floor:other" });
            }
        }
    }
    true
}
