//! C02 — type soundness: accepted programs never hit dynamic type errors.
//! Well-typed programs are perturbed into almost-well-typed ones; whatever the checker still accepts is run
//! under the strict (tag-checking) reference interpreter and under mini-Lua.
use crate::common::*;
use arbitrary::Unstructured;
use serde::{Deserialize, Serialize};
use syltmodel::ast::*;
use syltmodel::gen::{Gen, GenCfg};
use syltmodel::interp::Stop;
use syltmodel::plant;
use syltmodel::print::Plan as SurfacePlan;
use vcore::luarun::{run_lua, LuaOutcome, Terminal};
use vcore::{compile, Check, Labels, Outcome, Plan, Project, Stats, Step, Tape, Tier, Verdict};

pub struct C02;
pub const CHECK: C02 = C02;
pub fn plan(t: Tier) -> Plan {
    Plan::new(t.pick(30_000, 400_000), t.pick(3200, 4600))
}

#[derive(Clone, Serialize, Deserialize)]
pub struct Case {
    /// annotate variable definitions in the rendering
    #[serde(default)]
    pub annotate_defs: bool,
    /// parameters and return types are written without annotations (operator requirements on a parameter are then
    /// deferred constraints, re-checked when a call instantiates the function)
    #[serde(default)]
    pub erase_params: bool,
    /// the perturbed program (the perturbed expression is wrapped in `Mark`)
    pub prog: Program,
    pub kinds: Vec<String>,
    #[serde(default)]
    pub source: String,
}

fn surface(annotate_defs: bool, erase_params: bool) -> SurfacePlan {
    let mut p = SurfacePlan::default();
    p.annot_default = (annotate_defs, !erase_params, !erase_params);
    p.annotate_outer_fns = true;
    p
}

fn other_scalar(t: &mut Tape, ty: &Ty) -> Expr {
    let mut opts: Vec<Expr> = Vec::new();
    if *ty != Ty::Int {
        opts.push(int(7));
    }
    if *ty != Ty::Float {
        opts.push(float("2.5"));
    }
    if *ty != Ty::Str {
        opts.push(string("zq"));
    }
    if *ty != Ty::Bool {
        opts.push(boolean(true));
    }
    opts.push(e(Ty::Tuple(vec![Ty::Int, Ty::Str]), EKind::Tuple(vec![int(1), string("t")])));
    opts.push(e(Ty::List(Box::new(Ty::Int)), EKind::List(vec![int(1), int(2)])));
    t.pick(&opts).clone()
}

/// apply one perturbation; returns the perturbed program and the kind name.
/// The kind is drawn first (uniformly over the kinds that have a matching site), then a matching site.
fn perturb(t: &mut Tape, p: &Program) -> Option<(Program, String)> {
    let (_, sites) = plant::sites(p);
    if sites.is_empty() {
        return None;
    }
    let olds: Vec<Expr> = (0..sites.len()).map(|i| plant::expr_at(p, i).unwrap_or_else(|| int(0))).collect();
    let is_marked = |x: &Expr| matches!(x.kind, EKind::Mark(_));
    let cand = |f: &dyn Fn(usize) -> bool| -> Vec<usize> { (0..sites.len()).filter(|i| !is_marked(&olds[*i]) && f(*i)).collect() };
    let blob_ok = |b: usize| p.blobs[b].fields.iter().all(|f| !f.ty.is_fn());
    let c_any = cand(&|_| true);
    let c_var = cand(&|i| sites[i].ctx.scope.iter().any(|v| p.var(*v).ty != olds[i].ty && p.var(*v).kind != VarKind::SelfVar && (!sites[i].ctx.in_pure || !p.var(*v).mutable)));
    let c_blob = cand(&|i| matches!(&olds[i].ty, Ty::Blob(a) if (0..p.blobs.len()).any(|b| b != *a && blob_ok(b))));
    let c_call = cand(&|i| matches!(&olds[i].kind, EKind::Call(_, args) if !args.is_empty()));
    let c_field = cand(&|i| matches!(&olds[i].kind, EKind::Field(..)) || matches!(&olds[i].kind, EKind::BlobNew { fields, .. } if !fields.is_empty()));
    let c_variant = cand(&|i| matches!(&olds[i].kind, EKind::Variant(..)) || matches!(&olds[i].kind, EKind::Case { arms, default, .. } if default.is_none() && arms.len() > 1));
    let c_if = cand(&|i| matches!(&olds[i].kind, EKind::If(_, Some(d)) if d.value.is_some()));
    let c_list = cand(&|i| matches!(&olds[i].kind, EKind::List(xs) if !xs.is_empty()));
    let c_tuple = cand(&|i| matches!(&olds[i].kind, EKind::TupleIdx(..)) || matches!(&olds[i].kind, EKind::Tuple(xs) if !xs.is_empty()));
    let c_op = cand(&|i| matches!(&olds[i].kind, EKind::Bin(..)));
    // a sub-expression of a global's initialiser that has the global's own type (outside function literals)
    let c_selfinit = cand(&|i| {
        let c = &sites[i].ctx;
        c.closure_depth == 0
            && !c.global_is_start
            && matches!(c.placement, plant::Placement::GlobalInit | plant::Placement::Operand | plant::Placement::Element | plant::Placement::Argument | plant::Placement::FieldInit)
            && p.globals.iter().any(|g| g.var == c.global && !matches!(g.value.kind, EKind::Lambda(_)) && p.var(g.var).ty == olds[i].ty)
    });
    // binders of the enclosing top-level definition that are *not* in scope at the site (their scope has ended, or they are
    // declared later, or they belong to another function literal) and have the type the site expects
    let oos_vars = |i: usize| -> Vec<VarId> {
        let c = &sites[i].ctx;
        let mut inside: Vec<VarId> = Vec::new();
        if let Some(g) = p.globals.iter().find(|g| g.var == c.global) {
            crate::c09::collect_binders(&g.value, &mut inside);
        }
        inside.into_iter().filter(|v| !c.scope.contains(v) && p.var(*v).kind != VarKind::SelfVar && p.var(*v).ty == olds[i].ty).collect()
    };
    let c_oos = cand(&|i| !oos_vars(i).is_empty());
    // the value of a `ret` statement (wherever the statement stands: also inside the trailing expression of a block)
    let c_ret = cand(&|i| matches!(sites[i].ctx.placement, plant::Placement::ReturnValue));
    // a block value (not a sub-expression of one) in a function that returns something: it can be wrapped into
    // `if true do ret <other type> else <value> end` - an early `ret` inside the trailing expression of a block
    let c_early = cand(&|i| matches!(sites[i].ctx.placement, plant::Placement::ReturnValue) && sites[i].ctx.ret != Ty::Void && olds[i].ty != Ty::Void);
    let pools: [(&Vec<usize>, u32); 14] = [
        (&c_any, 20),
        (&c_var, 16),
        (&c_blob, 45),
        (&c_call, 10),
        (&c_field, 10),
        (&c_variant, 8),
        (&c_if, 8),
        (&c_list, 6),
        (&c_tuple, 8),
        (&c_op, 14),
        (&c_selfinit, 10),
        (&c_oos, 12),
        (&c_ret, 14),
        (&c_early, 10),
    ];
    let weights: Vec<u32> = pools.iter().map(|(c, w)| if c.is_empty() { 0 } else { *w }).collect();
    if weights.iter().all(|w| *w == 0) {
        return None;
    }
    let which = t.weighted(&weights);
    let pool = pools[which].0;
    if pool.is_empty() {
        return None;
    }
    let si = *t.pick(pool);
    let site = &sites[si];
    let old = olds[si].clone();
    let claimed = old.ty.clone();
    let mark = |x: Expr| -> Expr { e(claimed.clone(), EKind::Mark(Box::new(Expr { ty: claimed.clone(), kind: x.kind }))) };
    let mut q = p.clone();
    let (newx, kind): (Expr, &str) = match which {
        0 => (mark(other_scalar(t, &claimed)), "literal-of-other-type"),
        12 => (mark(other_scalar(t, &claimed)), "returned-literal-of-other-type"),
        13 => {
            let rt = site.ctx.ret.clone();
            let bad = other_scalar(t, &rt);
            let marked = e(rt.clone(), EKind::Mark(Box::new(Expr { ty: rt.clone(), kind: bad.kind })));
            let cond = if t.chance(2, 3) { boolean(true) } else { boolean(false) };
            let then_b = Block { stmts: vec![Stmt::Ret(Some(marked))], value: None };
            let else_b = Block { stmts: vec![], value: Some(Box::new(old.clone())) };
            (e(claimed.clone(), EKind::If(vec![(cond, then_b)], Some(else_b))), "early-return-of-other-type")
        }
        1 => {
            let vars: Vec<VarId> = site
                .ctx
                .scope
                .iter()
                .copied()
                .filter(|v| p.var(*v).ty != claimed && p.var(*v).kind != VarKind::SelfVar && (!site.ctx.in_pure || !p.var(*v).mutable))
                .collect();
            let v = *t.pick(&vars);
            (mark(e(claimed.clone(), EKind::Var(v))), "variable-of-other-type")
        }
        2 => {
            let a = match &claimed {
                Ty::Blob(a) => *a,
                _ => return None,
            };
            let others: Vec<usize> = (0..p.blobs.len()).filter(|b| *b != a && blob_ok(*b)).collect();
            // prefer a structurally related blob (its fields are a subset or a superset of the expected blob's)
            let names = |x: usize| -> Vec<(String, Ty)> { p.blobs[x].fields.iter().map(|f| (f.name.clone(), f.ty.clone())).collect() };
            let fa = names(a);
            let related: Vec<usize> = others
                .iter()
                .copied()
                .filter(|b| {
                    let fb = names(*b);
                    fb.iter().all(|f| fa.contains(f)) || fa.iter().all(|f| fb.contains(f))
                })
                .collect();
            let b = if !related.is_empty() && t.chance(3, 4) { *t.pick(&related) } else { *t.pick(&others) };
            let vars: Vec<VarId> = site.ctx.scope.iter().copied().filter(|v| p.var(*v).ty == Ty::Blob(b)).collect();
            if !vars.is_empty() && t.bool() {
                (mark(e(claimed.clone(), EKind::Var(*t.pick(&vars)))), "blob-of-other-type")
            } else {
                let mut fields = Vec::new();
                for f in &p.blobs[b].fields {
                    match syltmodel::shrink::default_expr(p, &f.ty) {
                        Some(d) => fields.push((f.name.clone(), d)),
                        None => return None,
                    }
                }
                let sv = q.new_var("self".to_string(), Ty::Blob(b), VarKind::SelfVar, true);
                (mark(e(claimed.clone(), EKind::BlobNew { blob: b, self_var: sv, fields })), "blob-of-other-type")
            }
        }
        3 => match &old.kind {
            EKind::Call(f, args) => {
                let mut a = args.clone();
                let k = match t.below(3) {
                    0 => {
                        a.pop();
                        "argument-dropped"
                    }
                    1 => {
                        let x = a[0].clone();
                        a.push(x);
                        "argument-duplicated"
                    }
                    _ => {
                        if a.len() < 2 || a[0].ty == a[1].ty {
                            a.pop();
                            "argument-dropped"
                        } else {
                            a.swap(0, 1);
                            "arguments-swapped"
                        }
                    }
                };
                (mark(e(claimed.clone(), EKind::Call(f.clone(), a))), k)
            }
            _ => return None,
        },
        4 => match &old.kind {
            EKind::Field(o, _) => (mark(e(claimed.clone(), EKind::Field(o.clone(), "zznope".to_string()))), "unknown-field"),
            EKind::BlobNew { blob, self_var, fields } => {
                let mut f = fields.clone();
                if t.bool() {
                    f.pop();
                    (mark(e(claimed.clone(), EKind::BlobNew { blob: *blob, self_var: *self_var, fields: f })), "missing-field")
                } else {
                    f.push(("zzextra".to_string(), int(1)));
                    (mark(e(claimed.clone(), EKind::BlobNew { blob: *blob, self_var: *self_var, fields: f })), "extra-field")
                }
            }
            _ => return None,
        },
        5 => match &old.kind {
            EKind::Variant(en, _, payload) => (mark(e(claimed.clone(), EKind::Variant(*en, "Zznope".to_string(), payload.clone()))), "unknown-variant"),
            EKind::Case { scrut, arms, .. } => {
                let mut a = arms.clone();
                a.pop();
                (mark(e(claimed.clone(), EKind::Case { scrut: scrut.clone(), arms: a, default: None })), "arm-removed-from-total-case")
            }
            _ => return None,
        },
        6 => match &old.kind {
            EKind::If(bs, Some(d)) => {
                let mut d2 = d.clone();
                d2.value = Some(Box::new(other_scalar(t, &claimed)));
                (mark(e(claimed.clone(), EKind::If(bs.clone(), Some(d2)))), "branches-of-different-types")
            }
            _ => return None,
        },
        7 => match &old.kind {
            EKind::List(xs) => {
                let mut y = xs.clone();
                let inner = xs[0].ty.clone();
                y.push(other_scalar(t, &inner));
                (mark(e(claimed.clone(), EKind::List(y))), "heterogeneous-list")
            }
            _ => return None,
        },
        9 => match &old.kind {
            // the operator is replaced by another one of the same result type; whether the operands admit it is the
            // type checker's business (`true <= false`, `"a" - "b"`, `blob < blob`, `1 and 2` must all be rejected)
            EKind::Bin(op, a, b) => {
                let family: &[BinOp] = match op {
                    BinOp::Add | BinOp::Sub | BinOp::Mul => &[BinOp::Add, BinOp::Sub, BinOp::Mul],
                    BinOp::Div => return None,
                    _ => &[BinOp::Eq, BinOp::Ne, BinOp::Lt, BinOp::Le, BinOp::Gt, BinOp::Ge, BinOp::And, BinOp::Or],
                };
                let others: Vec<BinOp> = family.iter().copied().filter(|o| o != op).collect();
                let new_op = *t.pick(&others);
                (mark(e(claimed.clone(), EKind::Bin(new_op, a.clone(), b.clone()))), "operator-replaced")
            }
            _ => return None,
        },
        11 => {
            // a variable of the right type whose declaration is not visible here: unless the use is rejected, running it reads
            // a variable that does not exist (yet / any more)
            let vs = oos_vars(si);
            let v = *t.pick(&vs);
            (mark(e(claimed.clone(), EKind::Var(v))), "out-of-scope-variable")
        }
        10 => {
            // the initialiser of a global reads the global itself: a read of an uninitialised variable unless rejected
            (mark(e(claimed.clone(), EKind::Var(site.ctx.global))), "global-reads-itself-in-initialiser")
        }
        _ => match &old.kind {
            EKind::TupleIdx(o, i) => (mark(e(claimed.clone(), EKind::TupleIdx(o.clone(), i + 3))), "tuple-index-out-of-range"),
            EKind::Tuple(xs) => {
                let mut y = xs.clone();
                y.push(int(9));
                (mark(e(claimed.clone(), EKind::Tuple(y))), "tuple-of-other-length")
            }
            _ => return None,
        },
    };
    Some((plant::replace_expr(&q, si, newx), kind.to_string()))
}

/// some perturbed (marked) expression is the value stored into a field of `self`, or the sibling operand of a read of one
fn marked_meets_self_field(p: &Program) -> bool {
    let is_self_field = |x: &Expr| match &x.kind {
        EKind::Field(b, _) => matches!(&b.kind, EKind::Var(v) if p.var(*v).kind == VarKind::SelfVar),
        _ => false,
    };
    let is_mark = |x: &Expr| matches!(x.kind, EKind::Mark(_));
    fn scan(b: &Block, hit: &mut bool, is_self: &dyn Fn(&LValue) -> bool, is_mark: &dyn Fn(&Expr) -> bool) {
        for s in &b.stmts {
            match s {
                Stmt::Assign { target, value, .. } if is_self(target) && is_mark(value) => *hit = true,
                Stmt::Loop { body, .. } => scan(body, hit, is_self, is_mark),
                Stmt::Block(inner) => scan(inner, hit, is_self, is_mark),
                _ => {}
            }
        }
    }
    let target_on_self = |t: &LValue| match t {
        LValue::Field(o, _) => matches!(&o.kind, EKind::Var(v) if p.var(*v).kind == VarKind::SelfVar),
        _ => false,
    };
    let mut hit = false;
    syltmodel::walk::walk_program(p, &mut |x| match &x.kind {
        EKind::Lambda(def) => scan(&def.body, &mut hit, &target_on_self, &is_mark),
        EKind::If(bs, d) => {
            for (_, b) in bs {
                scan(b, &mut hit, &target_on_self, &is_mark);
            }
            if let Some(b) = d {
                scan(b, &mut hit, &target_on_self, &is_mark);
            }
        }
        EKind::Case { arms, default, .. } => {
            for a in arms {
                scan(&a.body, &mut hit, &target_on_self, &is_mark);
            }
            if let Some(b) = default {
                scan(b, &mut hit, &target_on_self, &is_mark);
            }
        }
        EKind::Bin(_, a, b) => {
            if (is_self_field(a) && is_mark(b)) || (is_self_field(b) && is_mark(a)) {
                hit = true;
            }
        }
        _ => {}
    });
    hit
}

impl Check for C02 {
    type Case = Case;
    fn id(&self) -> &'static str {
        "C02"
    }
    fn generate(&self, u: &mut Unstructured, tier: Tier) -> Option<Case> {
        let mut t = Tape::new(u);
        let mut cfg = GenCfg::core(tier == Tier::Thorough);
        cfg.decl_budget = 45;
        let base = Gen::new(&mut t, cfg).program();
        let n = if t.chance(1, 4) { 2 } else { 1 };
        let mut prog = base;
        let mut kinds = Vec::new();
        for _ in 0..n {
            if let Some((q, k)) = perturb(&mut t, &prog) {
                prog = q;
                kinds.push(k);
            }
        }
        if kinds.is_empty() {
            return None;
        }
        let annotate_defs = t.bool();
        let erase_params = t.chance(1, 3);
        let source = render(&prog, &surface(annotate_defs, erase_params)).text;
        Some(Case { annotate_defs, erase_params, prog, kinds, source })
    }

    fn evaluate(&self, case: &Case, labels: &mut Labels) -> Verdict {
        for k in &case.kinds {
            labels.add(format!("kind:{}", k));
        }
        let printed = render(&case.prog, &surface(case.annotate_defs, case.erase_params));
        if case.erase_params {
            labels.add("unannotated-parameters");
        }
        if case.annotate_defs {
            labels.add("annotated-definitions");
        }
        let out = compile(&Project::single(printed.text.clone()));
        let lua = match &out {
            Outcome::Accepted(b) => b.clone(),
            Outcome::Rejected { errors, bytes_written } => {
                if *bytes_written > 0 {
                    return Verdict::Violation { signature: "C02/wrote-lua-on-error".into(), detail: out.short() };
                }
                labels.add(format!("rejected:{}", errors[0].kind));
                return Verdict::Pass { nontrivial: false };
            }
            Outcome::Panicked { .. } => return Verdict::Discard("compiler-panicked".into()),
        };
        labels.add("accepted");
        for k in &case.kinds {
            labels.add(format!("accepted-kind:{}", k));
        }
        let r = reference(&case.prog, false);
        if r.ambiguous {
            return Verdict::Discard("order-ambiguous".into());
        }
        let executed = r.mark_hits > 0;
        if executed {
            labels.add("perturbed-site-executed");
        }
        // 1. the strict reference run must not see an operation on a value of the wrong type
        if let Some(Stop::Dyn(kind, what)) = &r.stop {
            if kind == "raw" {
                return Verdict::Discard("raw".into());
            }
            // the access path is part of the signature where it is a root cause of its own: `self` has no type inside
            // the blob literal that defines it
            let mut on_self = false;
            let mut elsewhere = false;
            syltmodel::walk::walk_program(&case.prog, &mut |e| {
                if let EKind::Mark(inner) = &e.kind {
                    if let EKind::Field(base, name) = &inner.kind {
                        if name == "zznope" {
                            match &base.kind {
                                EKind::Var(v) if case.prog.var(*v).kind == VarKind::SelfVar => on_self = true,
                                _ => elsewhere = true,
                            }
                        }
                    }
                }
            });
            // the perturbed expression is stored into / combined with a field of `self` (`self.f += <perturbed>`,
            // `self.f = <perturbed>`, `self.f + <perturbed>`): the same missing type of `self` lets it through
            let with_self_field = kind != "field" && marked_meets_self_field(&case.prog);
            if with_self_field {
                return Verdict::Violation {
                    signature: "C02/strict-dynerror/value-meets-field-of-self/on-self".to_string(),
                    detail: format!(
                        "the compiler accepts this program, but executing it applies an operation to a value of the wrong type: {} ({})\nperturbation: {:?} (its value meets a field of `self`)\n--- source ---\n{}",
                        kind, what, case.kinds, printed.text
                    ),
                };
            }
            // a field error can only come from an unknown-field perturbation; when every one of them is on `self`, the other
            // perturbation of a doubly perturbed program has nothing to do with it
            let (kinds, path) = if kind == "field" && what.contains("no field zznope") && on_self && !elsewhere {
                ("unknown-field".to_string(), "/on-self")
            } else {
                (case.kinds.join("+"), "")
            };
            return Verdict::Violation {
                signature: format!("C02/strict-dynerror/{}/{}{}", kind, kinds, path),
                detail: format!(
                    "the compiler accepts this program, but executing it applies an operation to a value of the wrong type: {} ({})\nperturbation: {:?}\n--- source ---\n{}",
                    kind, what, case.kinds, printed.text
                ),
            };
        }
        if let Some(Stop::Budget(w)) = &r.stop {
            return Verdict::Discard(format!("ref-budget-{}", w));
        }
        if r.nan_seen || r.unprintable_seen {
            return Verdict::Discard("nan-or-unprintable".into());
        }
        // 2. the Lua run must not end in a Lua error other than assert / <!>, and must agree with the reference
        let expected = match expected_trace(&r, &printed) {
            Ok(t) => t,
            Err(e) => return Verdict::Discard(e.chars().take(30).collect()),
        };
        match run_lua(&lua, r.steps * 60 + 400_000) {
            LuaOutcome::LoadError { class, msg, .. } => Verdict::Violation {
                signature: format!("C02/lua-load/{}", class),
                detail: format!("emitted chunk does not load: {}\n--- source ---\n{}", msg, printed.text),
            },
            LuaOutcome::Ran(t) => {
                match &t.terminal {
                    Terminal::OutOfBudget(_) => return Verdict::Discard("lua-budget".into()),
                    Terminal::LuaError { class, msg } => {
                        return Verdict::Violation {
                            signature: format!("C02/lua-error/{}/{}", class, case.kinds.join("+")),
                            detail: format!(
                                "the compiler accepts this program, but running it ends in a Lua error that is neither a failed `<=>` nor a reached `<!>`: {}\nperturbation: {:?}\n--- source ---\n{}",
                                msg, case.kinds, printed.text
                            ),
                        };
                    }
                    _ => {}
                }
                if let Some((kind, what)) = diff_traces(&expected, &t) {
                    return Verdict::Violation {
                        signature: format!("C02/trace/{}/{}", kind, case.kinds.join("+")),
                        detail: format!("accepted program: Lua and the reference interpreter disagree: {}\nperturbation: {:?}\n--- source ---\n{}", what, case.kinds, printed.text),
                    };
                }
                Verdict::Pass { nontrivial: executed }
            }
        }
    }

    fn simplify_at(&self, case: &Case, idx: usize) -> Step<Case> {
        let pc = ProgCase { prog: case.prog.clone(), plan: SurfacePlan::default(), source: String::new() };
        match shrink_step(&pc, idx) {
            Step::End => Step::End,
            Step::Skip => Step::Skip,
            Step::Candidate(p) => {
                // keep the perturbation: the marked expression must survive
                let mut has_mark = false;
                syltmodel::walk::walk_program(&p.prog, &mut |e| {
                    if matches!(e.kind, EKind::Mark(_)) {
                        has_mark = true;
                    }
                });
                if !has_mark {
                    return Step::Skip;
                }
                let source = render(&p.prog, &surface(case.annotate_defs, case.erase_params)).text;
                Step::Candidate(Case { annotate_defs: case.annotate_defs, erase_params: case.erase_params, prog: p.prog, kinds: case.kinds.clone(), source })
            }
        }
    }
    fn sample(&self, case: &Case) -> serde_json::Value {
        vcore::truncate_value(serde_json::json!({"perturbations": case.kinds, "source": case.source}), 2000)
    }
    fn rule(&self) -> String {
        "cases: a random well-typed program with 1-2 type perturbations at generated expression sites: the expression is replaced by a \
         literal of another type or by an in-scope variable of another type, a call loses / duplicates / swaps arguments, a field access \
         names an unknown field, a blob literal loses or gains a field, a variant is renamed to an unknown one, an arm is removed from a \
         total case, one branch of an if-expression gets another type, a list literal / push gets an element of another type, a tuple \
         index goes out of range, a tuple gets another length (no `external`, no `unsafe_force`). Rejection by the compiler is fine and \
         counted. Oracle for ACCEPTED perturbed programs: the strict, tag-checking reference run ends without a dynamic type error \
         (arithmetic/comparison on wrong tags, call of a non-function, wrong arity, missing field, unknown variant in a total case, \
         non-bool condition, read of an unbound variable, void stored), the mini-Lua run ends Ok / failed `<=>` / reached `<!>` only, and \
         both traces agree. non-trivial = accepted by the compiler and the perturbed expression was evaluated in the reference run; \
         distinct by case hash"
            .into()
    }
    fn health(&self, s: &Stats) -> Result<(), String> {
        if s.evaluations < 500 {
            return Ok(());
        }
        if s.label("accepted") * 50 < s.evaluations {
            return Err(format!("only {} of {} perturbed programs are accepted: the perturbations are too crude", s.label("accepted"), s.evaluations));
        }
        if s.label("perturbed-site-executed") * 100 < s.evaluations {
            return Err(format!("perturbed sites are rarely executed: {} of {}", s.label("perturbed-site-executed"), s.evaluations));
        }
        Ok(())
    }
}
