//! C08 — type annotations are optional and never change the generated code
//! (metamorphic: annotation subsets of one GenAST program).
use crate::common::*;
use arbitrary::Unstructured;
use serde::{Deserialize, Serialize};
use syltmodel::gen::{Gen, GenCfg};
use syltmodel::print::{Choices, Plan as SurfacePlan};
use vcore::{compile, Check, Labels, Outcome, Plan, Project, Stats, Step, Tape, Tier, Verdict};

pub struct C08;
pub const CHECK: C08 = C08;
pub fn plan(t: Tier) -> Plan {
    Plan::new(t.pick(6_000, 80_000), t.pick(3000, 4500))
}

#[derive(Clone, Serialize, Deserialize)]
pub struct Case {
    pub prog: syltmodel::ast::Program,
    /// annotation bit vectors of the random subsets (besides "all" and "none")
    pub subsets: Vec<Vec<u8>>,
    #[serde(default)]
    pub source_all: String,
    /// index + 1 into SNIPPETS (0 = none): hand-written declarations with open (`*`) or generic member types and annotated
    /// definitions of those types, appended to the generated program; its annotation sites follow the same subsets
    #[serde(default)]
    pub snippet: usize,
}


/// (top-level declarations, definitions inside the function `zzsnip`: (name, annotation, mutable, value))
type Snip = (&'static str, &'static [(&'static str, &'static str, bool, &'static str)]);
const SNIPPETS: &[Snip] = &[
    ("Zopt :: enum\n    Zjust *,\n    Znone,\nend\n", &[("za", "Zopt", true, "Zopt.Zjust 1"), ("zb", "Zopt", true, "Zopt.Zjust \"abc\""), ("zc", "Zopt", false, "Zopt.Znone")]),
    ("Zhold :: blob { b: * }\n", &[("za", "Zhold", true, "Zhold { b: 1 }"), ("zb", "Zhold", false, "Zhold { b: \"s\" }")]),
    (
        "Zbox :: blob(*T) { v: *T }\n",
        &[("za", "Zbox", true, "Zbox { v: 1 }"), ("zb", "Zbox", true, "Zbox { v: \"s\" }"), ("zc", "Zbox(int)", false, "Zbox { v: 2 }")],
    ),
    (
        "Zopt :: enum\n    Zjust *,\n    Znone,\nend\nzzf :: fn p: Zopt -> int do\n    1\nend\n",
        &[("zx", "int", true, "zzf(Zopt.Zjust 1)"), ("zy", "int", true, "zzf(Zopt.Zjust \"s\")"), ("zo", "Zopt", false, "Zopt.Zjust 2.5")],
    ),
    (
        "Zpair :: blob(*A, *B) { l: *A, r: *B }\n",
        &[
            ("za", "Zpair(int, str)", true, "Zpair { l: 1, r: \"s\" }"),
            ("zb", "Zpair", true, "Zpair { l: \"s\", r: 1 }"),
            ("zc", "(int, Zpair)", false, "(1, Zpair { l: 1.5, r: true })"),
        ],
    ),
    // module-qualified library types on variables that carry the name of that module (legal: in `dict.new()` the module
    // wins, a bare `dict` is the variable)
    (
        "",
        &[
            ("dict", "dict.Dict(str, int)", true, "dict.new()"),
            ("set", "set.Set(int)", false, "set.new()"),
            ("zq", "(dict.Dict(str, int), int)", false, "(dict, 1)"),
            ("zs", "[set.Set(int)]", true, "[set]"),
        ],
    ),
    (
        "",
        &[
            ("maybe", "maybe.Maybe(int)", true, "Maybe.Just 1"),
            ("list", "[maybe.Maybe(int)]", true, "[maybe]"),
            ("zf", "fn -> maybe.Maybe(int)", false, "fn -> do maybe end"),
            ("zm", "maybe.Maybe(int)", false, "zf()"),
        ],
    ),
];

/// the snippet with the annotation of definition j written when `bit(j)` says so
fn snippet_text(k: usize, bit: &dyn Fn(usize) -> bool) -> String {
    if k == 0 || k > SNIPPETS.len() {
        return String::new();
    }
    let (decls, defs) = SNIPPETS[k - 1];
    let mut s = String::from(decls);
    s.push_str("zzsnip :: fn do\n");
    for (j, (name, ty, mutable, value)) in defs.iter().enumerate() {
        if bit(j) {
            s.push_str(&format!("    {}: {} {} {}\n", name, ty, if *mutable { "=" } else { ":" }, value));
        } else {
            s.push_str(&format!("    {} {} {}\n", name, if *mutable { ":=" } else { "::" }, value));
        }
    }
    s.push_str("end\n");
    s
}

fn plan_with(bits: Vec<u8>) -> SurfacePlan {
    let mut p = SurfacePlan::default();
    p.annot_default = (false, false, false);
    p.annot = Choices(bits);
    p
}

pub fn annot_cfg(t: &mut Tape, thorough: bool) -> GenCfg {
    let mut cfg = GenCfg::core(thorough);
    // known finding: an unannotated blob-typed parameter whose function field is called ("Unknown types
    // cannot be called"); methods are only generated in 20 % of the cases
    cfg.methods = t.chance(1, 5);
    cfg
}

impl Check for C08 {
    type Case = Case;
    fn id(&self) -> &'static str {
        "C08"
    }
    fn generate(&self, u: &mut Unstructured, tier: Tier) -> Option<Case> {
        let mut t = Tape::new(u);
        let cfg = annot_cfg(&mut t, tier == Tier::Thorough);
        let prog = Gen::new(&mut t, cfg).program();
        let n = tier.pick(2, 4);
        let mut subsets = Vec::new();
        for _ in 0..n {
            let density = t.below(7) as u32 + 1;
            let bits: Vec<u8> = (0..400).map(|_| if t.chance(density, 8) { 1 } else { 0 }).collect();
            subsets.push(bits);
        }
        let snippet = if t.chance(1, 3) { 1 + t.below(SNIPPETS.len()) } else { 0 };
        let source_all = format!("{}{}", render(&prog, &plan_with(vec![1; 400])).text, snippet_text(snippet, &|_| true));
        Some(Case { prog, subsets, source_all, snippet })
    }

    fn evaluate(&self, case: &Case, labels: &mut Labels) -> Verdict {
        let all = plan_with(vec![1; 2000]);
        let mut pall = render(&case.prog, &all);
        pall.text.push_str(&snippet_text(case.snippet, &|_| true));
        if case.snippet > 0 {
            labels.add(if case.snippet > 5 { "module-qualified-type-snippet" } else { "open-or-generic-type-snippet" });
        }
        let base = compile(&Project::single(pall.text.clone()));
        let lua_all = match &base {
            Outcome::Accepted(b) => b.clone(),
            Outcome::Rejected { errors, .. } => {
                labels.add(format!("all-annotated-rejected:{}:{}", errors[0].kind, errors[0].sub));
                // the annotations are correct by construction: if the program without any of them is accepted, adding them
                // must not get it rejected
                let mut none = render(&case.prog, &plan_with(Vec::new()));
                none.text.push_str(&snippet_text(case.snippet, &|_| false));
                if let Outcome::Accepted(_) = compile(&Project::single(none.text.clone())) {
                    let what = message_class(&errors[0].message);
                    return Verdict::Violation {
                        signature: format!("C08/rejected-when-annotated/{}:{}:{}", errors[0].kind, errors[0].sub, what.trim()),
                        detail: format!(
                            "without annotations the program is accepted, fully (and correctly) annotated it is rejected: {}\n--- fully annotated ---\n{}\n--- without annotations ---\n{}",
                            base.short(),
                            pall.text,
                            none.text
                        ),
                    };
                }
                return Verdict::Discard("fully-annotated-rejected".into());
            }
            Outcome::Panicked { .. } => return Verdict::Discard("compiler-panicked".into()),
        };
        labels.add("accepted");
        let sites = pall.sites.annot;
        if pall.sites.annot_in_closure_or_recursive > 0 {
            labels.add("site-in-closure");
        }
        let mut variants: Vec<(String, SurfacePlan)> = vec![("none".into(), plan_with(Vec::new()))];
        for (i, b) in case.subsets.iter().enumerate() {
            variants.push((format!("subset{}", i), plan_with(b.clone())));
        }
        let mut distinct_subsets = std::collections::BTreeSet::new();
        for (name, plan) in &variants {
            let mut p = render(&case.prog, plan);
            // the snippet's sites take their bits from the far end of the same subset
            let bits = plan.annot.0.clone();
            p.text.push_str(&snippet_text(case.snippet, &|j| bits.len() > j && bits[bits.len() - 1 - j] & 1 == 1));
            distinct_subsets.insert(p.annot_taken.clone());
            let out = compile(&Project::single(p.text.clone()));
            match &out {
                Outcome::Accepted(b) => {
                    if *b != lua_all {
                        let sa = String::from_utf8_lossy(&lua_all).to_string();
                        let sb = String::from_utf8_lossy(b).to_string();
                        let la: Vec<&str> = sa.lines().collect();
                        let lb: Vec<&str> = sb.lines().collect();
                        let mut first = 0;
                        while first < la.len().min(lb.len()) && la[first] == lb[first] {
                            first += 1;
                        }
                        return Verdict::Violation {
                            signature: "C08/bytes-differ".into(),
                            detail: format!(
                                "variant {} compiles to different Lua than the fully annotated program (chunk line {}: {:?} vs {:?})\n--- fully annotated ---\n{}\n--- variant ---\n{}",
                                name,
                                first + 1,
                                la.get(first),
                                lb.get(first),
                                pall.text,
                                p.text
                            ),
                        };
                    }
                }
                Outcome::Rejected { errors, .. } => {
                    let what = message_class(&errors[0].message);
                    return Verdict::Violation {
                        signature: format!("C08/rejected-when-erased/{}:{}:{}", errors[0].kind, errors[0].sub, what.trim()),
                        detail: format!(
                            "the fully annotated program is accepted, but with the annotation subset `{}` it is rejected: {}\n--- fully annotated ---\n{}\n--- variant ---\n{}",
                            name,
                            out.short(),
                            pall.text,
                            p.text
                        ),
                    };
                }
                Outcome::Panicked { .. } => return Verdict::Discard("compiler-panicked".into()),
            }
        }
        Verdict::Pass { nontrivial: sites >= 3 && distinct_subsets.len() >= 2 && pall.sites.annot_in_closure_or_recursive > 0 }
    }

    fn simplify_at(&self, case: &Case, idx: usize) -> Step<Case> {
        let pc = ProgCase { prog: case.prog.clone(), plan: SurfacePlan::default(), source: String::new() };
        match shrink_step(&pc, idx) {
            Step::End => Step::End,
            Step::Skip => Step::Skip,
            Step::Candidate(p) => {
                let source_all = render(&p.prog, &plan_with(vec![1; 400])).text;
                Step::Candidate(Case { prog: p.prog, subsets: case.subsets.clone(), source_all, snippet: case.snippet })
            }
        }
    }
    fn sample(&self, case: &Case) -> serde_json::Value {
        vcore::truncate_value(
            serde_json::json!({"fully_annotated": render(&case.prog, &plan_with(vec![1; 2000])).text, "erased": render(&case.prog, &plan_with(Vec::new())).text}),
            1800,
        )
    }
    fn rule(&self) -> String {
        "cases: one random well-typed GenAST program rendered with different subsets of its annotation sites (variable definitions, \
         parameters of non-function type, return types): all sites, no site, and 2 (quick) / 4 (thorough) random subsets of random \
         density; a third of the cases also carry one of 5 hand-written snippets with open (`*`) or generic member types and annotated definitions of those types, whose annotations follow the same subsets. Oracle: if the fully annotated rendering is accepted, every variant is accepted and emits byte-identical Lua; if it is rejected, the rendering without annotations must be rejected as well. \
         non-trivial = >= 3 sites, at least two distinct subsets among the variants, and a site inside a closure (function literal \
         nested in a function); distinct by case hash"
            .into()
    }
    fn assumptions(&self) -> Vec<String> {
        vec!["function-typed parameters are always annotated (the property's annotation sites are 'parameters of non-function type')".into()]
    }
    fn health(&self, s: &Stats) -> Result<(), String> {
        if s.evaluations < 200 {
            return Ok(());
        }
        if (s.label("accepted") as f64) < 0.5 * s.evaluations as f64 {
            return Err("fewer than half of the fully annotated programs compile".into());
        }
        if s.label("site-in-closure") * 4 < s.evaluations {
            return Err("annotation sites inside closures are rare".into());
        }
        Ok(())
    }
}
