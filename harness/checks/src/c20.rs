//! C20 — driver contract of the real `sylt` binary: exit status, all-or-nothing output, flags.
//!
//! A case is a configuration tuple (program class x output mode x `--require` x `--no-std` x argument
//! order/spelling). The real binary is started on a materialised project in a private temp dir; the oracle
//! is differential against the library (`vcore::compile_fs` on the very same files) plus the file-system /
//! stdout contract the property states. See `rule()` for the clause list.
use arbitrary::Unstructured;
use serde::{Deserialize, Serialize};
use std::collections::BTreeMap;
use std::path::{Path, PathBuf};
use std::sync::atomic::{AtomicU64, Ordering};
use std::sync::OnceLock;
use std::time::{Duration, Instant};
use vcore::luarun::{run_lua, LuaOutcome, Terminal};
use vcore::{compile_fs, Check, Labels, Outcome, Project, Stats, Step, Tape, Tier, Verdict};

pub struct C20;
pub const CHECK: C20 = C20;
pub fn plan(t: Tier) -> vcore::Plan {
    // a case costs 1-4 process runs (a few ms each); small chunks so that all workers share the work
    let mut p = vcore::Plan::new(t.pick(8_000, 300_000), 160);
    p.chunk = t.pick(100, 1000);
    // tape shrinking matters little here (few, independent choices; `simplify_at` does the rest) and costs process runs
    p.max_shrink_iters = 80;
    // the per-invocation timeout (20 s => discard) must fire before the engine's per-case watchdog
    p.case_timeout_s = 150;
    p
}

const DEFAULT_SYLT_BIN: &str = "/verif/harness/target/repo-bin/release/sylt";
const DEFAULT_LUA_DIR: &str = "/verif/harness/target/release";
const PROC_TIMEOUT: Duration = Duration::from_secs(20);
const LUA_STEPS: u64 = 5_000_000;
/// Mode::OutQuota: below the size of the runtime preamble, so no complete program fits
const QUOTA: u64 = 8192;
const PREVIOUS: &str = "-- previous content of the output file (C20 sentinel)\n";

#[derive(Clone, Copy, Debug, PartialEq, Eq, Serialize, Deserialize)]
pub enum Mode {
    /// `-o FILE`, FILE does not exist (its directory does)
    OutNew,
    /// `-o -`
    Stdout,
    /// no `-o`: compile and pipe into `lua`
    Run,
    /// `-o FILE`, FILE exists with other content
    OutExisting,
    /// `-o DIR/x.lua` where DIR does not exist
    OutMissingDir,
    /// `-o F/x.lua` where F is a regular file
    OutParentIsFile,
    /// `-o DIR` where DIR is an existing directory
    OutIsDir,
    /// `-o LINK` where LINK is a symbolic link to /dev/full: a file that can be opened but not written (disk
    /// full). A driver may also replace the link by the complete program. (Never `/dev/full` itself: a driver that
    /// writes a temporary file and renames it would replace the device node when run as root.)
    OutDevFull,
    /// `-o FILE` (new) while the process may not grow a file beyond 8 KiB (RLIMIT_FSIZE, SIGXFSZ ignored, so
    /// `write` returns a short count and then EFBIG) — a quota / nearly full disk
    OutQuota,
}
impl Mode {
    fn name(self) -> &'static str {
        match self {
            Mode::OutNew => "file-new",
            Mode::Stdout => "stdout",
            Mode::Run => "run",
            Mode::OutExisting => "file-existing",
            Mode::OutMissingDir => "unwritable-missing-dir",
            Mode::OutParentIsFile => "unwritable-parent-is-file",
            Mode::OutIsDir => "unwritable-is-directory",
            Mode::OutDevFull => "symlink-to-dev-full",
            Mode::OutQuota => "file-size-limited",
        }
    }
    fn kind(self) -> &'static str {
        match self {
            Mode::OutNew | Mode::OutExisting => "file",
            Mode::OutQuota => "size-limited",
            Mode::OutDevFull => "full-device",
            Mode::Stdout => "stdout",
            Mode::Run => "run",
            _ => "unwritable",
        }
    }
    fn unwritable(self) -> bool {
        self.kind() == "unwritable"
    }
}

#[derive(Clone, Debug, Serialize, Deserialize)]
pub struct Case {
    /// "/p/main.sy" (+ optionally "/p/aux.sy")
    pub files: BTreeMap<String, String>,
    /// what the generator meant to build: "accepted" | "rejected" | "runtime" (a hint for labels, health and
    /// shrinking; the oracle takes the truth from the library)
    pub class: String,
    /// false = by construction only `<=>`, `<!>`, arithmetic, control flow, own functions
    pub uses_std: bool,
    pub mode: Mode,
    pub require: Option<String>,
    pub no_std: bool,
    /// 0 = flags before the file, 1 = flags after the file, 2 = first flag before, the rest after
    pub order: u8,
    /// `--output/--require` instead of `-o/-r`
    pub long_flags: bool,
    /// Mode::OutExisting: previous content is longer than any output (64 KiB) instead of one line
    pub prev_big: bool,
    /// the `-o` path is given relative to the working directory
    #[serde(default)]
    pub rel_out: bool,
}

// ------------------------------------------------------------------------------------------------
// program generator (templates; tiny programs — no closures, at most 3 function literals)
// ------------------------------------------------------------------------------------------------

struct Var {
    name: String,
    val: i64,
    mutable: bool,
}

struct Builder {
    helpers: Vec<(String, i64)>, // (name, K): h(a) = a + K
    aux: Option<(i64, i64)>,     // k0 = A, hk(a) = a * B
    vars: Vec<Var>,
    body: Vec<String>,
    helper_extra: Vec<Vec<String>>, // planted lines per helper (before its `ret`)
    aux_extra: Vec<String>,
    /// planted top-level lines of the main file (after the helpers)
    top_extra: Vec<String>,
    counter: usize,
    used_std: bool,
}

impl Builder {
    fn fresh(&mut self, p: &str) -> String {
        self.counter += 1;
        format!("{}{}", p, self.counter)
    }
    fn int_expr(&mut self, t: &mut Tape) -> (String, i64) {
        match t.below(5) {
            0 => {
                let a = t.range(0, 9);
                (format!("{}", a), a)
            }
            1 => {
                let (a, b) = (t.range(0, 20), t.range(0, 20));
                (format!("{} + {}", a, b), a + b)
            }
            2 => {
                let (a, b) = (t.range(0, 9), t.range(0, 9));
                (format!("{} * {}", a, b), a * b)
            }
            3 if !self.vars.is_empty() => {
                let i = t.below(self.vars.len());
                let b = t.range(0, 9);
                (format!("{} - {}", self.vars[i].name, b), self.vars[i].val - b)
            }
            _ if !self.helpers.is_empty() => {
                let i = t.below(self.helpers.len());
                let a = t.range(0, 9);
                (format!("{}({})", self.helpers[i].0, a), a + self.helpers[i].1)
            }
            _ => {
                let (a, b) = (t.range(1, 9), t.range(1, 9));
                (format!("({} + {}) * 2", a, b), (a + b) * 2)
            }
        }
    }
    fn stmt(&mut self, t: &mut Tape, allow_std: bool) {
        let n = if allow_std { 11 } else { 8 };
        match t.below(n) {
            0 => {
                let (e, v) = self.int_expr(t);
                let name = self.fresh("x");
                self.body.push(format!("    {} := {}", name, e));
                self.vars.push(Var { name, val: v, mutable: true });
            }
            1 => {
                let (e, v) = self.int_expr(t);
                self.body.push(format!("    {} <=> {}", e, v));
            }
            2 => {
                let (e, v) = self.int_expr(t);
                let name = self.fresh("c");
                self.body.push(format!("    {} :: {}", name, e));
                self.vars.push(Var { name, val: v, mutable: false });
            }
            3 => {
                let muts: Vec<usize> = (0..self.vars.len()).filter(|i| self.vars[*i].mutable).collect();
                if muts.is_empty() {
                    self.body.push("    if 1 < 2 do\n        1 <=> 1\n    end".into());
                } else {
                    let i = muts[t.below(muts.len())];
                    let c = t.range(0, 20);
                    let name = self.vars[i].name.clone();
                    self.body.push(format!("    if {} < {} do\n        {} = {} + 1\n    end", name, c, name, name));
                    if self.vars[i].val < c {
                        self.vars[i].val += 1;
                    }
                }
            }
            4 => {
                let name = self.fresh("i");
                let m = t.range(0, 4);
                self.body.push(format!("    {} := 0\n    loop {} < {} do\n        {} += 1\n    end\n    {} <=> {}", name, name, m, name, name, m));
                self.vars.push(Var { name, val: m, mutable: true });
            }
            5 => {
                let alts = [
                    "    (1, 2) <=> (1, 2)",
                    "    1.5 * 2.0 <=> 3.0",
                    "    \"ab\" + \"cd\" <=> \"abcd\"",
                    "    (1 < 2) <=> true",
                    "    (not false) <=> true",
                ];
                self.body.push(t.pick(&alts).to_string());
            }
            6 => {
                if let Some((a, b)) = self.aux {
                    if t.bool() {
                        self.body.push(format!("    aux.k0 <=> {}", a));
                    } else {
                        let x = t.range(0, 9);
                        self.body.push(format!("    aux.hk({}) <=> {}", x, x * b));
                    }
                } else {
                    let (e, v) = self.int_expr(t);
                    self.body.push(format!("    ({}) <=> {}", e, v));
                }
            }
            7 => {
                if let Some(v) = self.vars.last() {
                    self.body.push(format!("    {} <=> {}", v.name, v.val));
                } else {
                    self.body.push("    2 <=> 1 + 1".into());
                }
            }
            8 => {
                let (e, _) = self.int_expr(t);
                self.body.push(format!("    print({})", e));
                self.used_std = true;
            }
            9 => {
                let k = t.range(0, 99);
                self.body.push(format!("    print(\"text{}\")", k));
                self.used_std = true;
            }
            _ => {
                let k = t.range(0, 99);
                self.body.push(format!("    as_str({}) <=> \"{}\"", k, k));
                self.used_std = true;
            }
        }
    }

    fn render(&self) -> BTreeMap<String, String> {
        let mut main = String::new();
        if self.aux.is_some() {
            main.push_str("use aux\n");
        }
        for (i, (name, k)) in self.helpers.iter().enumerate() {
            main.push_str(&format!("{} :: fn a: int -> int do\n", name));
            for l in &self.helper_extra[i] {
                main.push_str(l);
                main.push('\n');
            }
            main.push_str(&format!("    ret a + {}\nend\n", k));
        }
        for l in &self.top_extra {
            main.push_str(l);
            main.push('\n');
        }
        main.push_str("start :: fn do\n");
        for l in &self.body {
            main.push_str(l);
            main.push('\n');
        }
        main.push_str("end\n");
        let mut files = BTreeMap::new();
        files.insert("/p/main.sy".to_string(), main);
        if let Some((a, b)) = self.aux {
            let mut s = format!("k0 :: {}\nhk :: fn a: int -> int do\n    ret a * {}\nend\n", a, b);
            for l in &self.aux_extra {
                s.push_str(l);
                s.push('\n');
            }
            files.insert("/p/aux.sy".to_string(), s);
        }
        files
    }
}

fn minimal_program(class: &str, uses_std: bool) -> String {
    match (class, uses_std) {
        ("rejected", _) => "start :: fn do\n    q := 1 +\nend\n".into(),
        ("runtime", false) => "start :: fn do\n    1 <=> 2\nend\n".into(),
        ("runtime", true) => "start :: fn do\n    print(1)\n    1 <=> 2\nend\n".into(),
        (_, false) => "start :: fn do\n    1 <=> 1\nend\n".into(),
        (_, true) => "start :: fn do\n    print(1)\nend\n".into(),
    }
}

fn gen_program(t: &mut Tape, class: &str, uses_std: bool) -> BTreeMap<String, String> {
    let mut b = Builder {
        helpers: Vec::new(),
        aux: None,
        vars: Vec::new(),
        body: Vec::new(),
        helper_extra: Vec::new(),
        aux_extra: Vec::new(),
        top_extra: Vec::new(),
        counter: 0,
        used_std: false,
    };
    let nh = t.below(3);
    for i in 0..nh {
        b.helpers.push((format!("h{}", i), t.range(0, 9)));
        b.helper_extra.push(Vec::new());
    }
    if t.chance(1, 5) {
        b.aux = Some((t.range(1, 9), t.range(1, 9)));
    }
    let n = 1 + t.below(5);
    for _ in 0..n {
        b.stmt(t, uses_std);
    }
    if uses_std && !b.used_std {
        b.body.push("    print(1)".into());
    }
    // a long string literal now and then (buffering / partial-write paths of `-o -` and `-o FILE`)
    if t.chance(1, 16) {
        let len = if t.bool() { 70_000 } else { 2_000 };
        b.body.push(format!("    big :: \"{}\"\n    big <=> big", "a".repeat(len)));
    }
    match class {
        "runtime" => {
            let pos = t.below(b.body.len() + 1);
            let failing = match t.below(6) {
                0 => {
                    let a = t.range(0, 9);
                    format!("    {} <=> {}", a, a + 1)
                }
                1 => "    <!>".to_string(),
                2 => "    if 1 < 2 do\n        <!>\n    end".to_string(),
                3 => {
                    let a = t.range(0, 9);
                    format!("    if {} < 10 do\n        {} <=> {}\n    end", a, a, a + 2)
                }
                4 if !b.helpers.is_empty() => {
                    let i = t.below(b.helpers.len());
                    let a = t.range(0, 9);
                    format!("    {}({}) <=> {}", b.helpers[i].0, a, a + b.helpers[i].1 + 1)
                }
                4 => "    \"a\" <=> \"b\"".to_string(),
                _ if !b.helpers.is_empty() => {
                    // the failure sits inside a helper; make sure it is called
                    let i = t.below(b.helpers.len());
                    b.helper_extra[i].push(if t.bool() { "    a <=> a + 1".into() } else { "    <!>".into() });
                    format!("    {}(1)", b.helpers[i].0)
                }
                _ => "    (1, 2) <=> (2, 1)".to_string(),
            };
            b.body.insert(pos, failing);
        }
        "rejected" => {
            let k = 1 + t.below(3);
            // now and then very many errors (one per broken top-level statement): counts around the limits of small integers
            if t.chance(1, 10) {
                let n = *t.pick(&[100usize, 254, 255, 256, 257, 300, 511, 512, 513]);
                let mut l = String::new();
                for i in 0..n {
                    l.push_str(&format!("zm{} :: )\n", i));
                }
                b.top_extra.push(l.trim_end().to_string());
            }
            for _ in 0..k {
                let q = b.fresh("q");
                // every fourth planted error is one that is found outside function bodies / by a later stage:
                // dependency cycles (also of length one), duplicate definitions, a missing file, a misplaced
                // statement, a loop exit outside a loop, a conflict marker
                if t.chance(1, 4) {
                    let n = b.counter;
                    b.counter += 1;
                    let l = match t.below(9) {
                        0 => format!("zc{} :: zc{} + 1", n, n),
                        1 => format!("zc{} :: zd{} + 1\nzd{} :: zc{}", n, n, n, n),
                        2 => format!("zc{} := zc{}", n, n),
                        3 => format!("zc{} :: zf{}()\nzf{} :: fn -> int do\n    ret zc{}\nend", n, n, n, n),
                        4 => format!("zc{} :: 1\nzc{} :: 2", n, n),
                        5 => format!("use zz_missing_{}", n),
                        6 => "<<<<<<< HEAD".to_string(),
                        7 => format!("zf{} :: fn do\n    break\nend", n),
                        _ => format!("zc{} :: (fn -> int do\n    ret zc{}\nend)()", n, n),
                    };
                    b.top_extra.push(l);
                    continue;
                }
                let line = match t.below(3) {
                    0 => match t.below(4) {
                        0 => format!("    {} := 1 +", q),
                        1 => format!("    {} := 1 1", q),
                        2 => "    ret )".to_string(),
                        _ => format!("    {} := 2 2 2", q),
                    },
                    1 => match t.below(3) {
                        0 => format!("    {} := nope{} + 1", q, b.counter),
                        1 => format!("    nofn{}(1)", b.counter),
                        _ => format!("    nope{} = 1", b.counter),
                    },
                    _ => match t.below(4) {
                        0 => format!("    {}: int = \"s\"", q),
                        1 => format!("    {} := 1 + \"a\"", q),
                        2 => format!("    {}: str = 1", q),
                        _ => format!("    {} :: 1\n    {} = 2", q, q),
                    },
                };
                // where: start body, a helper body, or the aux file
                let places = 1 + b.helpers.len() + if b.aux.is_some() { 1 } else { 0 };
                let w = t.below(places);
                if w == 0 {
                    let pos = t.below(b.body.len() + 1);
                    b.body.insert(pos, line);
                } else if w <= b.helpers.len() {
                    b.helper_extra[w - 1].push(line);
                } else {
                    // top level of the aux file: only forms that are legal statements there
                    let l = line.trim_start().to_string();
                    let l = if l.starts_with("ret") || l.starts_with("nofn") || l.starts_with("nope") { format!("{} := 1 1", q) } else { l };
                    b.aux_extra.push(l.replace("\n    ", "\n"));
                }
            }
        }
        _ => {}
    }
    b.render()
}

const REQUIRE_NAMES: &[&str] = &["extmod", "my_lib", "sub.mod"];

// ------------------------------------------------------------------------------------------------
// environment (binaries, preamble)
// ------------------------------------------------------------------------------------------------

struct Env {
    sylt: PathBuf,
    path_var: std::ffi::OsString,
    preamble: Vec<u8>,
}

fn env() -> &'static Result<Env, String> {
    static E: OnceLock<Result<Env, String>> = OnceLock::new();
    E.get_or_init(|| {
        let sylt = PathBuf::from(std::env::var("SYLT_BIN").unwrap_or_else(|_| DEFAULT_SYLT_BIN.replace("/verif", &vcore::verif_root().to_string_lossy())));
        if !sylt.is_file() {
            return Err("infra:sylt-binary-missing".into());
        }
        let lua_dir = PathBuf::from(std::env::var("SYLT_LUA_DIR").unwrap_or_else(|_| DEFAULT_LUA_DIR.replace("/verif", &vcore::verif_root().to_string_lossy())));
        if !lua_dir.join("lua").is_file() {
            return Err("infra:lua-binary-missing".into());
        }
        let mut path_var = std::ffi::OsString::from(&lua_dir);
        if let Some(p) = std::env::var_os("PATH") {
            path_var.push(":");
            path_var.push(p);
        }
        let repo = std::env::var("SYLT_REPO").unwrap_or_else(|_| "/repo".to_string());
        let preamble = match std::fs::read(Path::new(&repo).join("sylt-compiler/src/preamble.lua")) {
            Ok(b) => b,
            Err(_) => return Err("infra:preamble-unreadable".into()),
        };
        Ok(Env { sylt, path_var, preamble })
    })
}

struct RunOut {
    /// None = killed by a signal
    code: Option<i32>,
    stdout: Vec<u8>,
    stderr: Vec<u8>,
}
impl RunOut {
    fn ok(&self) -> bool {
        self.code == Some(0)
    }
    fn status(&self) -> String {
        match self.code {
            Some(c) => format!("exit status {}", c),
            None => "killed by a signal".into(),
        }
    }
}

extern "C" {
    fn setrlimit(resource: i32, rlim: *const [u64; 2]) -> i32;
    fn signal(signum: i32, handler: usize) -> usize;
}
const RLIMIT_FSIZE: i32 = 1; // Linux
const SIGXFSZ: i32 = 25; // Linux
const SIG_IGN: usize = 1;

/// Err(()) = timeout
fn run_sylt(e: &Env, cwd: &Path, args: &[String], labels: &mut Labels) -> Result<RunOut, ()> {
    run_sylt_limited(e, cwd, args, labels, None)
}

/// `fsize`: the process may not grow any file beyond that many bytes; SIGXFSZ is ignored (dispositions set to
/// "ignore" survive exec), so writes past the limit are cut short / fail with EFBIG instead of killing it
fn run_sylt_limited(e: &Env, cwd: &Path, args: &[String], labels: &mut Labels, fsize: Option<u64>) -> Result<RunOut, ()> {
    use std::io::Read;
    use std::os::unix::process::CommandExt;
    use std::process::{Command, Stdio};
    labels.add("process-runs");
    let mut cmd = Command::new(&e.sylt);
    if let Some(n) = fsize {
        unsafe {
            cmd.pre_exec(move || {
                signal(SIGXFSZ, SIG_IGN);
                let lim = [n, n];
                if setrlimit(RLIMIT_FSIZE, &lim) != 0 {
                    return Err(std::io::Error::last_os_error());
                }
                Ok(())
            });
        }
    }
    let mut child = match cmd
        .args(args)
        .current_dir(cwd)
        .env("NO_COLOR", "1")
        .env("CLICOLOR", "0")
        .env_remove("CLICOLOR_FORCE")
        .env("RUST_BACKTRACE", "0")
        .env("PATH", &e.path_var)
        .stdin(Stdio::null())
        .stdout(Stdio::piped())
        .stderr(Stdio::piped())
        .spawn()
    {
        Ok(c) => c,
        Err(_) => return Err(()),
    };
    let (tx_o, rx_o) = std::sync::mpsc::channel();
    let (tx_e, rx_e) = std::sync::mpsc::channel();
    let mut so = child.stdout.take().unwrap();
    let mut se = child.stderr.take().unwrap();
    std::thread::spawn(move || {
        let mut b = Vec::new();
        let _ = so.read_to_end(&mut b);
        let _ = tx_o.send(b);
    });
    std::thread::spawn(move || {
        let mut b = Vec::new();
        let _ = se.read_to_end(&mut b);
        let _ = tx_e.send(b);
    });
    let t0 = Instant::now();
    let status = loop {
        match child.try_wait() {
            Ok(Some(st)) => break st,
            Ok(None) => {
                if t0.elapsed() > PROC_TIMEOUT {
                    let _ = child.kill();
                    let _ = child.wait();
                    return Err(());
                }
                std::thread::sleep(Duration::from_micros(500));
            }
            Err(_) => return Err(()),
        }
    };
    // an orphaned `lua` (the driver does not wait for it when compilation fails) may still hold the pipes
    let left = PROC_TIMEOUT.saturating_sub(t0.elapsed()).max(Duration::from_secs(2));
    let stdout = rx_o.recv_timeout(left).map_err(|_| ())?;
    let stderr = rx_e.recv_timeout(left).map_err(|_| ())?;
    if std::env::var_os("C20_TRACE").is_some() {
        eprintln!("c20-trace {:>6} ms  {:?}  sylt {}", t0.elapsed().as_millis(), status.code(), args.join(" "));
    }
    Ok(RunOut { code: status.code(), stdout, stderr })
}

fn build_args(main: &str, out: Option<&str>, require: Option<&str>, no_std: bool, order: u8, long: bool) -> Vec<String> {
    let mut groups: Vec<Vec<String>> = Vec::new();
    if let Some(o) = out {
        groups.push(vec![if long { "--output" } else { "-o" }.to_string(), o.to_string()]);
    }
    if let Some(r) = require {
        groups.push(vec![if long { "--require" } else { "-r" }.to_string(), r.to_string()]);
    }
    if no_std {
        groups.push(vec!["--no-std".to_string()]);
    }
    let split = match order {
        0 => groups.len(),
        1 => 0,
        _ => groups.len().min(1),
    };
    let mut args: Vec<String> = Vec::new();
    for g in &groups[..split] {
        args.extend(g.iter().cloned());
    }
    args.push(main.to_string());
    for g in &groups[split..] {
        args.extend(g.iter().cloned());
    }
    args
}

fn cut(s: &str, n: usize) -> String {
    if s.len() <= n {
        return s.to_string();
    }
    let mut end = n;
    while !s.is_char_boundary(end) {
        end -= 1;
    }
    format!("{}…[+{} bytes]", &s[..end], s.len() - end)
}

fn count(hay: &[u8], needle: &[u8]) -> usize {
    if needle.is_empty() || hay.len() < needle.len() {
        return 0;
    }
    let mut n = 0;
    let mut i = 0;
    while i + needle.len() <= hay.len() {
        if &hay[i..i + needle.len()] == needle {
            n += 1;
            i += needle.len();
        } else {
            i += 1;
        }
    }
    n
}

const HEADERS: &[&str] = &["syntax error: ", "typecheck error: ", "compile error: ", "git conflict error: "];
fn uses_std_names(_files: &BTreeMap<String, String>) -> bool {
    false
}

fn header_lines(s: &str) -> usize {
    s.lines().filter(|l| HEADERS.iter().any(|h| l.starts_with(h))).count()
}

/// every needle occurs in `hay`, occurrences pairwise disjoint (any order). Err(i) = needle i is missing.
fn contains_all(hay: &str, needles: &[&str]) -> Result<(), usize> {
    let mut h = hay.to_string();
    let mut idx: Vec<usize> = (0..needles.len()).collect();
    idx.sort_by_key(|i| std::cmp::Reverse(needles[*i].len()));
    for i in idx {
        match h.find(needles[i]) {
            Some(p) => h.replace_range(p..p + needles[i].len(), "\u{1}"),
            None => return Err(i),
        }
    }
    Ok(())
}
fn in_order(hay: &str, needles: &[&str]) -> bool {
    let mut from = 0;
    for n in needles {
        match hay[from..].find(n) {
            Some(p) => from += p + n.len(),
            None => return false,
        }
    }
    true
}

fn term_name(t: &Terminal) -> String {
    match t {
        Terminal::Ok => "ok".into(),
        Terminal::AssertFailed => "assert-failed".into(),
        Terminal::Unreachable(n) => format!("unreachable@{}", n),
        Terminal::LuaError { class, .. } => format!("lua-error:{}", class),
        Terminal::OutOfBudget(w) => format!("budget:{}", w),
    }
}

/// run outcome of emitted Lua as the classes the oracle compares
enum LuaRes {
    Term(Terminal, Vec<String>),
    Load(String),
}
fn lua_of(bytes: &[u8]) -> LuaRes {
    match run_lua(bytes, LUA_STEPS) {
        LuaOutcome::LoadError { class, msg, .. } => LuaRes::Load(format!("{}: {}", class, msg)),
        LuaOutcome::Ran(tr) => LuaRes::Term(tr.terminal, tr.lines),
    }
}
fn lua_class(r: &LuaRes) -> String {
    match r {
        LuaRes::Load(_) => "load-error".into(),
        LuaRes::Term(t, _) => term_name(t),
    }
}

fn viol(sig: impl Into<String>, case: &Case, what: String) -> Verdict {
    let mut detail = what;
    detail.push_str(&format!(
        "\n--- configuration: mode={} require={:?} no_std={} order={} long_flags={} rel_out={} class={} uses_std={}",
        case.mode.name(),
        case.require,
        case.no_std,
        case.order,
        case.long_flags,
        case.rel_out,
        case.class,
        case.uses_std
    ));
    for (p, s) in &case.files {
        detail.push_str(&format!("\n--- {} ---\n{}", p, cut(s, 1500)));
    }
    Verdict::Violation { signature: sig.into(), detail }
}

static COUNTER: AtomicU64 = AtomicU64::new(0);

const STD_MARKERS: &[&str] = &["print", "as_str", "use list", "use math", "list.", "dict.", "set.", "maybe.", "Maybe"];

impl C20 {
    fn eval_in(&self, case: &Case, labels: &mut Labels, dir: &Path, e: &Env) -> Verdict {
        macro_rules! run {
            ($args:expr) => {
                match run_sylt(e, dir, $args, labels) {
                    Ok(r) => r,
                    Err(()) => return Verdict::Discard("timeout".into()),
                }
            };
        }
        // ---- materialise, library reference ------------------------------------------------------------
        let project = Project { files: case.files.clone(), main: "/p/main.sy".into(), std: !case.no_std, require: case.require.clone() };
        let proj = match project.materialize(dir) {
            Ok(p) => p,
            Err(_) => return Verdict::Discard("materialize-failed".into()),
        };
        let outd = dir.join("out");
        if std::fs::create_dir_all(&outd).is_err() {
            return Verdict::Discard("materialize-failed".into());
        }
        let lib = compile_fs(&proj);
        let std_free = !case.uses_std && !case.files.values().any(|s| STD_MARKERS.iter().any(|m| s.contains(m)));
        labels.add(format!("mode:{}", case.mode.name()));
        labels.add(format!("hint:{}", case.class));
        labels.add(if std_free { "std-free" } else { "uses-std" });
        labels.add(match &case.require {
            None => "require:none",
            Some(r) if r.ends_with(".lua") => "require:suffix",
            Some(_) => "require:plain",
        });
        if case.no_std {
            labels.add("no-std");
        }
        labels.add(format!("order:{}", case.order));
        if case.files.len() > 1 {
            labels.add("multi-file");
        }
        let lib_bytes: Option<&[u8]> = match &lib {
            Outcome::Panicked { .. } => return Verdict::Discard("library-panicked".into()),
            Outcome::Accepted(b) => Some(b),
            Outcome::Rejected { errors, .. } => {
                if errors.iter().any(|x| x.rendered.is_none()) {
                    return Verdict::Discard("library-error-does-not-render".into());
                }
                labels.add(format!("errors:{}", if errors.len() >= 2 { ">=2" } else if errors.len() == 1 { "1" } else { "0" }));
                // a rejection without any error (the library's business, C07) is still a rejection for the driver contract
                labels.add(format!("first-error:{}", errors.first().map(|e| e.kind.clone()).unwrap_or_else(|| "none".into())));
                None
            }
        };
        let lib_run: Option<LuaRes> = lib_bytes.map(lua_of);
        if let Some(LuaRes::Term(Terminal::OutOfBudget(_), _)) = &lib_run {
            return Verdict::Discard("lua-budget".into());
        }
        let lib_class = match (&lib_bytes, &lib_run) {
            (None, _) => "rejected",
            (Some(_), Some(LuaRes::Term(Terminal::Ok, _))) => "accepted-ok",
            _ => "runtime-fail",
        };
        // a `--require`d module never resolves under mini-Lua: keep that apart from failures of the program itself
        let require_unresolved = case.require.is_some() && matches!(&lib_run, Some(LuaRes::Term(Terminal::LuaError { msg, .. }, _)) if msg.contains("module '"));
        let label_class = if lib_class == "runtime-fail" && require_unresolved { "accepted-require-unresolvable" } else { lib_class };
        labels.add(format!("lib:{}", label_class));
        labels.add(format!("x:{}/{}", label_class, case.mode.kind()));
        let hint_ok = match case.class.as_str() {
            "accepted" => lib_class == "accepted-ok" || (case.no_std && !std_free) || (case.require.is_some() && lib_class == "runtime-fail"),
            "rejected" => lib_class == "rejected",
            _ => lib_class == "runtime-fail" || (case.no_std && !std_free),
        };
        if hint_ok {
            labels.add("hint-agrees");
        }

        // ---- output path set-up ------------------------------------------------------------------------
        let previous: String = if case.prev_big { format!("{}{}", PREVIOUS, "-- filler\n".repeat(6554)) } else { PREVIOUS.to_string() };
        let blocker = outd.join("blocker");
        let adir = outd.join("adir");
        let missing = outd.join("missing");
        let target: Option<PathBuf> = match case.mode {
            Mode::Run | Mode::Stdout => None,
            Mode::OutNew | Mode::OutQuota => Some(outd.join("new.lua")),
            Mode::OutDevFull => {
                let p = outd.join("full");
                if std::os::unix::fs::symlink("/dev/full", &p).is_err() {
                    return Verdict::Discard("materialize-failed".into());
                }
                Some(p)
            }
            Mode::OutExisting => {
                let p = outd.join("existing.lua");
                if std::fs::write(&p, &previous).is_err() {
                    return Verdict::Discard("materialize-failed".into());
                }
                Some(p)
            }
            Mode::OutMissingDir => Some(missing.join("x.lua")),
            Mode::OutParentIsFile => {
                if std::fs::write(&blocker, PREVIOUS).is_err() {
                    return Verdict::Discard("materialize-failed".into());
                }
                Some(blocker.join("x.lua"))
            }
            Mode::OutIsDir => {
                if std::fs::create_dir_all(&adir).is_err() {
                    return Verdict::Discard("materialize-failed".into());
                }
                Some(adir.clone())
            }
        };
        let out_arg: Option<String> = match case.mode {
            Mode::Run => None,
            Mode::Stdout => Some("-".into()),
            _ => target.as_ref().map(|p| {
                let rel = if case.rel_out { p.strip_prefix(dir).ok() } else { None };
                rel.unwrap_or(p.as_path()).to_string_lossy().to_string()
            }),
        };
        if case.rel_out && case.mode.kind() != "run" && case.mode.kind() != "stdout" {
            labels.add("relative-output-path");
        }
        let before = snapshot(&outd);
        let req = case.require.as_deref();
        let args = build_args(&proj.main, out_arg.as_deref(), req, case.no_std, case.order, case.long_flags);
        let cmdline = format!("sylt {}", args.join(" "));
        let r = if case.mode == Mode::OutQuota {
            match run_sylt_limited(e, dir, &args, labels, Some(QUOTA)) {
                Ok(r) => r,
                Err(()) => return Verdict::Discard("timeout".into()),
            }
        } else {
            run!(&args)
        };
        let after = snapshot(&outd);
        let so = String::from_utf8_lossy(&r.stdout).to_string();
        let se = String::from_utf8_lossy(&r.stderr).to_string();
        let streams = |r: &RunOut| format!("--- stdout ---\n{}\n--- stderr ---\n{}", cut(&String::from_utf8_lossy(&r.stdout), 1500), cut(&String::from_utf8_lossy(&r.stderr), 800));

        // ---- clause 7 (part): truly unwritable paths stay as they were, whatever the program -------------
        match case.mode {
            Mode::OutParentIsFile => {
                if std::fs::read(&blocker).ok().as_deref() != Some(PREVIOUS.as_bytes()) || !blocker.is_file() {
                    return viol("C20/unwritable/something-written", case, format!("`{}`: the regular file in the way of the output path was changed", cmdline));
                }
            }
            Mode::OutIsDir => {
                let empty = std::fs::read_dir(&adir).map(|mut d| d.next().is_none()).unwrap_or(false);
                if !adir.is_dir() || !empty {
                    return viol("C20/unwritable/something-written", case, format!("`{}`: the directory given as output file was replaced or something was written into it", cmdline));
                }
            }
            _ => {}
        }

        // ---- clause 1: exit status ---------------------------------------------------------------------
        // expected: Some(true) = zero, Some(false) = non-zero, None = either (missing directory: a driver may
        // legitimately create it; then the complete output must be there)
        let (expect_zero, failure_kind): (Option<bool>, &str) = match (lib_class, case.mode) {
            ("rejected", _) => (Some(false), "compile"),
            (_, Mode::OutParentIsFile) | (_, Mode::OutIsDir) => (Some(false), "unwritable"),
            // writing through the link fails, replacing the link works: either way all-or-nothing (below)
            (_, Mode::OutDevFull) => (None, "full-device"),
            // the complete program cannot be written; what the exit status has to be is settled by the
            // all-or-nothing rule below (0 demands the complete file)
            (_, Mode::OutQuota) => (None, "size-limited"),
            (_, Mode::OutMissingDir) => (None, "unwritable"),
            ("runtime-fail", Mode::Run) => (Some(false), "runtime"),
            _ => (Some(true), ""),
        };
        match expect_zero {
            Some(false) if r.ok() => {
                return viol(
                    format!("C20/exit-status/zero-on-failure/{}", failure_kind),
                    case,
                    format!(
                        "`{}` exited with status 0 although {}\n{}",
                        cmdline,
                        match failure_kind {
                            "compile" => format!("compilation fails ({})", lib.short()),
                            "runtime" => format!("the program fails at run time ({})", lib_run.as_ref().map(lua_class).unwrap_or_default()),
                            _ => "the output path cannot be written".to_string(),
                        },
                        streams(&r)
                    ),
                )
            }
            Some(true) if !r.ok() => {
                return viol(
                    format!("C20/exit-status/nonzero-on-success/{}", case.mode.kind()),
                    case,
                    format!("`{}`: {} although compilation{} succeeds (library: {})\n{}", cmdline, r.status(), if case.mode == Mode::Run { " and execution" } else { "" }, lib.short(), streams(&r)),
                )
            }
            _ => {}
        }

        // ---- clause 2: every error is printed ----------------------------------------------------------
        // (not demanded for unwritable paths: a driver may refuse the output path before it compiles anything)
        if let (Outcome::Rejected { errors, .. }, false) = (&lib, case.mode.unwritable()) {
            let rendered: Vec<&str> = errors.iter().map(|x| x.rendered.as_deref().unwrap_or("")).collect();
            let both = format!("{}\n{}", so, se);
            let (stream_name, stream): (&str, &str) = if contains_all(&so, &rendered).is_ok() {
                ("stdout", &so)
            } else if contains_all(&se, &rendered).is_ok() {
                ("stderr", &se)
            } else {
                ("stdout+stderr", &both)
            };
            if let Err(i) = contains_all(stream, &rendered) {
                return viol(
                    format!("C20/errors/missing/{}", errors[i].kind),
                    case,
                    format!(
                        "`{}`: error {} of {} that the library reports for the same files is not printed:\n{}\n{}",
                        cmdline,
                        i + 1,
                        errors.len(),
                        rendered[i],
                        streams(&r)
                    ),
                );
            }
            // independent of what the library reports: a file that carries one of the planted *syntax* errors (the forms
            // below are never legal) must be named in the output - also when another file is broken as well
            const SYNTAX_MARKS: &[&str] = &[" := 1 +\n", " := 1 1\n", "ret )\n", " := 2 2 2\n", "<<<<<<< HEAD\n"];
            if !case.no_std || !uses_std_names(&case.files) {
                for (path, text) in case.files.iter() {
                    let t = format!("{}\n", text);
                    // only files that are loaded: the main file, and the aux file while main still says `use aux`
                    // (a conflict marker in the main file ends the compilation before its imports are read)
                    let loaded = path.ends_with("/main.sy")
                        || case.files.get("/p/main.sy").map(|m| m.lines().any(|l| l.trim() == "use aux") && !m.contains("<<<<<<<")).unwrap_or(false);
                    if loaded && SYNTAX_MARKS.iter().any(|m| t.contains(m)) {
                        let base = path.rsplit('/').next().unwrap_or(path);
                        if !both.contains(base) {
                            return viol(
                                "C20/errors/file-with-syntax-error-not-reported",
                                case,
                                format!("`{}`: {} contains a syntax error but no printed error names that file\n{}", cmdline, path, streams(&r)),
                            );
                        }
                        labels.add("planted-syntax-error-file-reported");
                    }
                }
            }
            labels.add(format!("errors-on:{}", stream_name));
            if in_order(stream, &rendered) {
                labels.add("errors-in-library-order");
            }
            let want: usize = rendered.iter().map(|x| header_lines(x)).sum();
            let got = header_lines(&both);
            if got != want {
                return viol(
                    "C20/errors/count",
                    case,
                    format!("`{}` prints {} error headers, the library reports {} error(s) ({} header lines)\n{}", cmdline, got, errors.len(), want, streams(&r)),
                );
            }
            // nothing of the Lua program may reach stdout when compilation fails (`-o -` streams)
            let probe = &e.preamble[..e.preamble.len().min(48)];
            if count(&r.stdout, probe) > 0 || count(&r.stdout, b"-- End Sylt preamble") > 0 {
                return viol("C20/stdout-mode/lua-on-failure", case, format!("`{}`: compilation fails but (part of) the Lua program was written to stdout\n{}", cmdline, streams(&r)));
            }
        }

        // ---- run mode: the program's output and its run-time error are shown -----------------------------
        if case.mode == Mode::Run {
            if let Some(LuaRes::Term(term, lines)) = &lib_run {
                let ls: Vec<&str> = lines.iter().map(|s| s.as_str()).collect();
                if !in_order(&so, &ls) {
                    return viol("C20/run/output-missing", case, format!("`{}`: the program's output {:?} is not on stdout\n{}", cmdline, cut(&lines.join("\\n"), 300), streams(&r)));
                }
                let both = format!("{}\n{}", so, se);
                let needle: Option<String> = match term {
                    Terminal::AssertFailed => Some("Assert failed!".into()),
                    Terminal::Unreachable(n) => Some(format!("Reached unreachable code on line {}", n)),
                    Terminal::LuaError { msg, .. } => Some(msg.clone()),
                    _ => None,
                };
                if let Some(n) = needle {
                    if !both.contains(&n) {
                        return viol("C20/run/error-not-printed", case, format!("`{}`: the run-time error ({}) is not printed\n{}", cmdline, cut(&n, 200), streams(&r)));
                    }
                    labels.add("run-error-printed");
                }
            }
        }

        // ---- clause 3 / 7: the output file ---------------------------------------------------------------
        let mut main_output: Option<Vec<u8>> = None; // bytes the main invocation produced (file or stdout)
        match case.mode {
            Mode::OutNew | Mode::OutExisting => {
                let t = target.as_ref().unwrap();
                let now = std::fs::read(t).ok();
                if r.ok() {
                    match (&now, lib_bytes) {
                        (None, _) => return viol("C20/output-file/missing-after-success", case, format!("`{}` exited with 0 but {} does not exist", cmdline, t.display())),
                        (Some(b), Some(l)) => {
                            if b.as_slice() != l {
                                return viol(
                                    "C20/output-file/differs-from-library",
                                    case,
                                    format!("`{}`: the file has {} bytes, the library emits {} bytes for the same files and flags; {}", cmdline, b.len(), l.len(), first_diff(b, l)),
                                );
                            }
                            main_output = Some(b.clone());
                        }
                        _ => {}
                    }
                } else {
                    let was: Option<&[u8]> = if case.mode == Mode::OutExisting { Some(previous.as_bytes()) } else { None };
                    if now.as_deref() != was {
                        let how = match (&now, was) {
                            (Some(_), None) => "created",
                            (None, Some(_)) => "removed",
                            _ => "modified",
                        };
                        return viol(
                            "C20/output-file/touched-on-failure",
                            case,
                            format!("`{}` failed ({}) but the output file was {}: now {:?} bytes, before {:?} bytes\n{}", cmdline, r.status(), how, now.as_ref().map(|b| b.len()), was.map(|b| b.len()), streams(&r)),
                        );
                    }
                }
            }
            Mode::OutMissingDir => {
                let t = target.as_ref().unwrap();
                if r.ok() {
                    // a driver that creates the directory: then all-or-nothing demands the complete program
                    let now = std::fs::read(t).ok();
                    if now.is_none() {
                        return viol("C20/output-file/missing-after-success", case, format!("`{}` exited with 0 but {} does not exist", cmdline, t.display()));
                    }
                    if now.as_deref() != lib_bytes {
                        return viol("C20/output-file/differs-from-library", case, format!("`{}` exited with 0 but {} does not hold the complete program", cmdline, t.display()));
                    }
                    labels.add("missing-dir-created");
                } else if missing.exists() {
                    return viol("C20/unwritable/something-written", case, format!("`{}` failed ({}) but {} was created", cmdline, r.status(), missing.display()));
                }
            }
            Mode::OutQuota => {
                // all-or-nothing when the file cannot take the whole program
                let t = target.as_ref().unwrap();
                let now = std::fs::read(t).ok();
                let complete = now.as_deref() == lib_bytes && lib_bytes.is_some();
                if let Some(b) = &now {
                    if !complete {
                        let sig = if r.ok() { "C20/output-file/partial-after-success" } else { "C20/output-file/touched-on-failure" };
                        return viol(
                            sig,
                            case,
                            format!(
                                "`{}` with the file size limited to {} bytes: {}, and the output file (did not exist before) now holds {} bytes{}\n{}",
                                cmdline,
                                QUOTA,
                                r.status(),
                                b.len(),
                                lib_bytes.map(|l| format!(" — the first {} of the {} bytes of the program", b.len().min(l.len()), l.len())).unwrap_or_default(),
                                streams(&r)
                            ),
                        );
                    }
                } else if r.ok() {
                    return viol("C20/output-file/missing-after-success", case, format!("`{}` exited with 0 but {} does not exist", cmdline, t.display()));
                }
                labels.add("size-limited-held");
            }
            Mode::OutDevFull => {
                let t = target.as_ref().unwrap();
                let is_link = std::fs::read_link(t).map(|l| l == Path::new("/dev/full")).unwrap_or(false);
                if r.ok() {
                    let now = if is_link { None } else { std::fs::read(t).ok() };
                    if now.is_none() || now.as_deref() != lib_bytes {
                        return viol(
                            "C20/output-file/partial-after-success",
                            case,
                            format!("`{}` (the output path is a symbolic link to /dev/full) exited with 0 but the complete program is not at that path\n{}", cmdline, streams(&r)),
                        );
                    }
                    labels.add("full-device-link-replaced");
                } else if !is_link {
                    return viol("C20/output-file/touched-on-failure", case, format!("`{}` failed ({}) but the symbolic link at the output path was replaced\n{}", cmdline, r.status(), streams(&r)));
                }
            }
            Mode::Stdout => {
                if r.ok() {
                    if let Some(l) = lib_bytes {
                        main_output = Some(r.stdout.clone());
                        // also against the library (the `-o FILE` twin below is the property's own wording)
                        if r.stdout.as_slice() != l {
                            labels.add("stdout-differs-from-library");
                        }
                    }
                }
            }
            _ => {}
        }

        // ---- all-or-nothing, second half: nothing else appears or changes next to the output path ----------------
        // (temporary files of an atomic write must be gone afterwards, whatever the outcome)
        {
            let mut allowed: Vec<String> = Vec::new();
            if r.ok() {
                if let Some(t) = &target {
                    if let Ok(rel) = t.strip_prefix(&outd) {
                        allowed.push(rel.to_string_lossy().to_string());
                    }
                }
                if case.mode == Mode::OutMissingDir {
                    allowed.push("missing".into());
                }
            }
            let mut changed: Vec<String> = Vec::new();
            for k in before.keys().chain(after.keys()) {
                if before.get(k) != after.get(k) && !allowed.contains(k) && !changed.contains(k) {
                    changed.push(k.clone());
                }
            }
            if !changed.is_empty() {
                let what: Vec<String> = changed.iter().map(|k| format!("{} ({} -> {})", k, before.get(k).cloned().unwrap_or_else(|| "absent".into()), after.get(k).cloned().unwrap_or_else(|| "absent".into()))).collect();
                return viol(
                    if r.ok() { "C20/output-file/stray-file-after-success" } else { "C20/output-file/stray-file-on-failure" },
                    case,
                    format!("`{}` ({}): besides the output file these entries of the output directory appeared or changed: {}\n{}", cmdline, r.status(), what.join(", "), streams(&r)),
                );
            }
        }

        let accepted = lib_bytes.is_some();
        // ---- clause 4: `-o -` == `-o FILE` -----------------------------------------------------------------
        if case.mode == Mode::Stdout && accepted {
            let twin = outd.join("twin-file.lua");
            let a = build_args(&proj.main, Some(&twin.to_string_lossy()), req, case.no_std, case.order, case.long_flags);
            let r2 = run!(&a);
            if r2.ok() != r.ok() {
                return viol("C20/stdout-mode/status-differs-from-file", case, format!("`{}`: {}; `sylt {}`: {}", cmdline, r.status(), a.join(" "), r2.status()));
            }
            if r2.ok() {
                let fb = std::fs::read(&twin).unwrap_or_default();
                if fb != r.stdout {
                    return viol(
                        "C20/stdout-mode/differs-from-file",
                        case,
                        format!("`{}` wrote {} bytes to stdout, `sylt {}` wrote {} bytes to the file; {}", cmdline, r.stdout.len(), a.join(" "), fb.len(), first_diff(&r.stdout, &fb)),
                    );
                }
                labels.add("clause4-compared");
            }
        }

        // ---- clause 5: `--require M` = flag-less output + exactly one require after the preamble ----------------
        if let (Some(m), Some(with), true) = (req, main_output.as_ref(), accepted) {
            let (a, twin) = if case.mode == Mode::Stdout {
                (build_args(&proj.main, Some("-"), None, case.no_std, case.order, case.long_flags), None)
            } else {
                let tw = outd.join("twin-norequire.lua");
                (build_args(&proj.main, Some(&tw.to_string_lossy()), None, case.no_std, case.order, case.long_flags), Some(tw))
            };
            let r3 = run!(&a);
            if !r3.ok() {
                return viol("C20/require/acceptance-differs", case, format!("`{}` succeeds, `sylt {}` (same without --require): {}\n{}", cmdline, a.join(" "), r3.status(), streams(&r3)));
            }
            let without: Vec<u8> = match &twin {
                Some(p) => std::fs::read(p).unwrap_or_default(),
                None => r3.stdout.clone(),
            };
            let pre = &e.preamble;
            if !without.starts_with(pre) {
                if std::env::var_os("C20_TRACE").is_some() {
                    eprintln!("c20-trace preamble mismatch: {} (twin: sylt {})", first_diff(&without, pre), a.join(" "));
                }
                return Verdict::Discard("preamble-file-is-not-the-emitted-prefix".into());
            }
            let module = m.strip_suffix(".lua").unwrap_or(m);
            let needle = format!("require \"{}\"", module);
            let (cw, co) = (count(with, needle.as_bytes()), count(&without, needle.as_bytes()));
            let loose_w = count(with, b"require \"") + count(with, b"require(") + count(with, b"require '");
            let loose_o = count(&without, b"require \"") + count(&without, b"require(") + count(&without, b"require '");
            if cw != co + 1 || loose_w != loose_o + 1 {
                return viol(
                    "C20/require/count",
                    case,
                    format!("`{}`: `{}` occurs {} time(s) in the output ({} without the flag); require statements of any module: {} vs {}", cmdline, needle, cw, co, loose_w, loose_o),
                );
            }
            if !with.starts_with(pre) {
                return viol("C20/require/not-after-preamble", case, format!("`{}`: the output does not start with the runtime preamble any more; {}", cmdline, first_diff(with, pre)));
            }
            let rest = &with[pre.len()..];
            let ws = |b: &[u8]| b.iter().take_while(|c| c.is_ascii_whitespace()).count();
            let rest_t = &rest[ws(rest)..];
            if !rest_t.starts_with(needle.as_bytes()) {
                return viol(
                    "C20/require/not-after-preamble",
                    case,
                    format!("`{}`: the text right after the preamble is {:?}, expected `{}`", cmdline, cut(&String::from_utf8_lossy(&rest_t[..rest_t.len().min(80)]), 80), needle),
                );
            }
            let after = &rest_t[needle.len()..];
            let after_t = {
                let n = after.iter().take_while(|c| c.is_ascii_whitespace() || **c == b';').count();
                &after[n..]
            };
            let orig = &without[pre.len()..];
            if after != orig && after_t != &orig[ws(orig)..] {
                return viol("C20/require/rest-differs", case, format!("`{}`: removing the require statement does not give the output without the flag; {}", cmdline, first_diff(after, orig)));
            }
            labels.add("clause5-compared");
        }

        // ---- clause 6: `--no-std` changes nothing for std-free programs -------------------------------------------
        // (only where the output sink itself cannot fail: the twin run writes to an ordinary new file)
        if std_free && matches!(case.mode.kind(), "file" | "stdout" | "run") {
            let twin = outd.join("twin-stdtoggle.lua");
            let o: Option<String> = match case.mode {
                Mode::Run => None,
                Mode::Stdout => Some("-".into()),
                _ => Some(twin.to_string_lossy().to_string()),
            };
            let a = build_args(&proj.main, o.as_deref(), req, !case.no_std, case.order, case.long_flags);
            let r4 = run!(&a);
            if r4.ok() != r.ok() {
                return viol(
                    format!("C20/no-std/acceptance-differs/{}", case.mode.kind()),
                    case,
                    format!("std-free program: `{}`: {}; `sylt {}`: {}\n{}\n=== twin\n{}", cmdline, r.status(), a.join(" "), r4.status(), streams(&r), streams(&r4)),
                );
            }
            if r.ok() && case.mode != Mode::Run {
                let other: Vec<u8> = if case.mode == Mode::Stdout { r4.stdout.clone() } else { std::fs::read(&twin).unwrap_or_default() };
                if let Some(mine) = &main_output {
                    let (x, y) = (lua_of(mine), lua_of(&other));
                    let same = match (&x, &y) {
                        (LuaRes::Term(a, la), LuaRes::Term(b, lb)) => term_name(a) == term_name(b) && la == lb,
                        (LuaRes::Load(_), LuaRes::Load(_)) => true,
                        _ => false,
                    };
                    if !same {
                        return viol(
                            "C20/no-std/run-outcome-differs",
                            case,
                            format!("std-free program: running the output of `{}` ends {}, running the output of `sylt {}` ends {}", cmdline, lua_class(&x), a.join(" "), lua_class(&y)),
                        );
                    }
                }
            }
            if case.mode == Mode::Run {
                // std-free programs print nothing themselves; on failure both must name the same failure
                let kind = |r: &RunOut| -> &'static str {
                    let t = format!("{}{}", String::from_utf8_lossy(&r.stdout), String::from_utf8_lossy(&r.stderr));
                    if header_lines(&t) > 0 {
                        "compile-error"
                    } else if t.contains("Assert failed!") {
                        "assert"
                    } else if t.contains("Reached unreachable code") {
                        "unreachable"
                    } else if r.ok() {
                        "ok"
                    } else {
                        "other"
                    }
                };
                if kind(&r) != kind(&r4) {
                    return viol(
                        "C20/no-std/run-outcome-differs",
                        case,
                        format!("std-free program: `{}` ends with {}, `sylt {}` ends with {}\n{}\n=== twin\n{}", cmdline, kind(&r), a.join(" "), kind(&r4), streams(&r), streams(&r4)),
                    );
                }
            }
            labels.add("clause6-compared");
        }

        let flags = (case.mode != Mode::Run) as u32 + case.require.is_some() as u32 + case.no_std as u32;
        let failing = label_class == "rejected" || label_class == "runtime-fail" || (case.mode == Mode::Run && lib_class != "accepted-ok");
        Verdict::Pass { nontrivial: flags >= 2 || failing || case.mode.unwritable() }
    }
}

/// every entry below `root` (relative path -> kind, size and content hash)
fn snapshot(root: &Path) -> BTreeMap<String, String> {
    fn walk(root: &Path, d: &Path, out: &mut BTreeMap<String, String>) {
        let rd = match std::fs::read_dir(d) {
            Ok(r) => r,
            Err(_) => return,
        };
        for e in rd.flatten() {
            let p = e.path();
            let rel = p.strip_prefix(root).unwrap_or(&p).to_string_lossy().to_string();
            let desc = match std::fs::symlink_metadata(&p) {
                Err(_) => "unreadable".to_string(),
                Ok(m) if m.file_type().is_symlink() => format!("link to {}", std::fs::read_link(&p).map(|l| l.to_string_lossy().to_string()).unwrap_or_default()),
                Ok(m) if m.is_dir() => {
                    walk(root, &p, out);
                    "directory".to_string()
                }
                Ok(m) if m.is_file() => {
                    let b = std::fs::read(&p).unwrap_or_default();
                    format!("file of {} bytes #{:016x}", b.len(), vcore::hash64(&b[..]))
                }
                Ok(_) => "special file".to_string(),
            };
            out.insert(rel, desc);
        }
    }
    let mut out = BTreeMap::new();
    walk(root, root, &mut out);
    out
}

fn first_diff(a: &[u8], b: &[u8]) -> String {
    let n = a.iter().zip(b.iter()).take_while(|(x, y)| x == y).count();
    let show = |s: &[u8]| {
        let lo = n.saturating_sub(30);
        let hi = (n + 50).min(s.len());
        if lo >= hi {
            String::from("<end>")
        } else {
            format!("{:?}", String::from_utf8_lossy(&s[lo..hi]))
        }
    };
    format!("first difference at byte {}: {} vs {}", n, show(a), show(b))
}

impl Check for C20 {
    type Case = Case;
    fn id(&self) -> &'static str {
        "C20"
    }

    fn generate(&self, u: &mut Unstructured, _tier: Tier) -> Option<Case> {
        let mut t = Tape::new(u);
        let class = ["accepted", "rejected", "runtime"][t.weighted(&[40, 35, 25])];
        let uses_std = t.chance(2, 5);
        let modes = [Mode::OutNew, Mode::Stdout, Mode::Run, Mode::OutExisting, Mode::OutMissingDir, Mode::OutParentIsFile, Mode::OutIsDir, Mode::OutDevFull, Mode::OutQuota];
        let mode = modes[t.weighted(&[22, 18, 25, 15, 6, 6, 5, 5, 8])];
        // in run mode a required module can never be found (no such file; mini-Lua has no file system), so the
        // flag turns every accepted program into a run-time failure there: keep that combination, but rarer
        let require = match t.weighted(if mode == Mode::Run { &[70, 15, 15] } else { &[40, 30, 30] }) {
            0 => None,
            1 => Some(t.pick(REQUIRE_NAMES).to_string()),
            _ => Some(format!("{}.lua", t.pick(REQUIRE_NAMES))),
        };
        let no_std = t.chance(2, 5);
        let order = t.below(3) as u8;
        let long_flags = t.bool();
        let prev_big = t.bool();
        let rel_out = t.chance(1, 3);
        let files = gen_program(&mut t, class, uses_std);
        Some(Case { files, class: class.to_string(), uses_std, mode, require, no_std, order, long_flags, prev_big, rel_out })
    }

    fn evaluate(&self, case: &Case, labels: &mut Labels) -> Verdict {
        let e = match env() {
            Ok(e) => e,
            Err(reason) => return Verdict::Discard(reason.clone()),
        };
        let n = COUNTER.fetch_add(1, Ordering::Relaxed);
        let dir = std::env::temp_dir().join(format!("verif-c20-{}-{}", std::process::id(), n));
        let _ = std::fs::remove_dir_all(&dir);
        let v = self.eval_in(case, labels, &dir, e);
        let _ = std::fs::remove_dir_all(&dir);
        v
    }

    fn simplify_at(&self, case: &Case, idx: usize) -> Step<Case> {
        let mut c = case.clone();
        match idx {
            0 => {
                if c.require.is_none() {
                    return Step::Skip;
                }
                c.require = None;
            }
            1 => match &c.require {
                Some(r) if r.ends_with(".lua") => c.require = Some(r.trim_end_matches(".lua").to_string()),
                _ => return Step::Skip,
            },
            2 => {
                if !c.no_std {
                    return Step::Skip;
                }
                c.no_std = false;
            }
            3 => {
                if c.order == 0 {
                    return Step::Skip;
                }
                c.order = 0;
            }
            4 => {
                if !c.long_flags {
                    return Step::Skip;
                }
                c.long_flags = false;
            }
            5 => {
                if !c.prev_big && !c.rel_out {
                    return Step::Skip;
                }
                c.prev_big = false;
                c.rel_out = false;
            }
            6 => {
                if c.mode != Mode::OutExisting {
                    return Step::Skip;
                }
                c.mode = Mode::OutNew;
            }
            7 => {
                let min = minimal_program(&c.class, c.uses_std);
                // strictly decreasing measure (the engine re-tries after every success)
                let total: usize = c.files.values().map(|s| s.len()).sum();
                if total <= min.len() {
                    return Step::Skip;
                }
                c.files.clear();
                c.files.insert("/p/main.sy".into(), min);
            }
            8 => {
                if c.files.len() < 2 {
                    return Step::Skip;
                }
                c.files.remove("/p/aux.sy");
                let main: Vec<&str> = case.files["/p/main.sy"].lines().filter(|l| !l.contains("aux")).collect();
                c.files.insert("/p/main.sy".into(), main.join("\n") + "\n");
            }
            _ => {
                // remove one line (with its more-indented block and closing `end`) of a file
                let mut k = idx - 9;
                for (name, src) in &case.files {
                    let lines: Vec<&str> = src.lines().collect();
                    if k < lines.len() {
                        let i = k;
                        let ind = |l: &str| l.chars().take_while(|c| *c == ' ').count();
                        let mut j = i + 1;
                        while j < lines.len() && ind(lines[j]) > ind(lines[i]) {
                            j += 1;
                        }
                        if j > i + 1 && j < lines.len() && lines[j].trim() == "end" && ind(lines[j]) == ind(lines[i]) {
                            j += 1;
                        }
                        if lines[i].starts_with("start ::") {
                            return Step::Skip;
                        }
                        let mut out: Vec<&str> = lines[..i].to_vec();
                        out.extend_from_slice(&lines[j..]);
                        let text = if out.is_empty() { String::new() } else { out.join("\n") + "\n" };
                        if text.len() >= src.len() {
                            return Step::Skip;
                        }
                        c.files.insert(name.clone(), text);
                        return Step::Candidate(c);
                    }
                    k -= lines.len();
                }
                return Step::End;
            }
        }
        Step::Candidate(c)
    }

    fn sample(&self, case: &Case) -> serde_json::Value {
        vcore::truncate_value(
            serde_json::json!({
                "class": case.class, "uses_std": case.uses_std, "mode": case.mode.name(), "require": case.require,
                "no_std": case.no_std, "order": case.order, "long_flags": case.long_flags, "rel_out": case.rel_out, "files": case.files,
            }),
            1200,
        )
    }

    fn rule(&self) -> String {
        "case = configuration tuple decoded from the tape: program class (accepted | rejected by 1-3 planted syntax/name/type errors or top-level rejections: dependency cycles incl. self reference, duplicate definitions, missing file, loop exit outside a loop, conflict marker \
         errors in `start`, a helper function or a second file | accepted but failing at run time through a false `<=>` or a \
         reached `<!>`, directly, in a branch or in a called function) x uses-std (print/as_str) or std-free x mode (`-o FILE` \
         new / existing with short or 64 KiB previous content / in a missing directory / below a regular file / naming a \
         directory / a symbolic link to /dev/full / new while the process may not grow files beyond 8 KiB (RLIMIT_FSIZE \
         with SIGXFSZ ignored: a quota or nearly full disk); absolute or cwd-relative `-o` path; `-o -`; run mode) x `--require` (absent, plain, with .lua suffix) x `--no-std` x flag position (before, \
         after, around the file) x short/long flag spelling. The real `sylt` binary runs in a private temp dir (NO_COLOR, \
         stdin null, mini-Lua `lua` first on PATH, 20 s timeout => discard). Oracle, differential against the library \
         (`tree`+`compile`) on the same materialised files: (1) exit status 0 <=> library accepts (run mode: and mini-Lua runs \
         the library's bytes to Ok); truly unwritable path => non-zero; (2) every error the library returns is printed \
         (rendering is a substring of the output, disjoint occurrences), number of error headers equal, no Lua on stdout when \
         compilation fails; run mode: program output on stdout, run-time error text printed; (3) `-o FILE` after success: file \
         byte-identical to the library's output; after failure: file absent / previous content; (4) `-o -` stdout == bytes \
         of an `-o FILE` twin run; (5) `--require M`: output starts with preamble.lua (read at run time), then exactly one \
         `require \"M\"` (no .lua), rest identical to a twin run without the flag; (6) std-free programs: a twin run with \
         `--no-std` toggled has the same exit status and (mini-Lua) the same run outcome; (7) unwritable path: nothing created \
         or changed at/under it; size-limited file / link to /dev/full: afterwards the path holds the complete \
         program (then exit 0) or is as before (then non-zero); whatever the outcome, no other entry of the output \
         directory appears or changes (no temporary file left behind). Silent where the property is silent (--help, no file, -v, --dump-tree, stdout content on \
         success in file mode, wording of failures). non-trivial = at least two of {-o, --require, --no-std} given, or a \
         failing program, or an unwritable path; distinct by hash of the case"
            .into()
    }

    fn assumptions(&self) -> Vec<String> {
        vec![
            "run mode is observed with the harness's mini-Lua CLI standing in for `lua` (reads the chunk from stdin, prints run-time errors to stderr, exit 1); `require` never finds a module there, as with real Lua in a directory without that module".into(),
            "`--require NAME.lua` must produce `require \"NAME\"` (the flag's help text calls the argument a Lua file; Lua's require takes the module name)".into(),
            "an output path in a directory that does not exist counts as unwritable only if the driver does not create it: exit 0 with the complete file is accepted there".into(),
            "all-or-nothing is read to include temporaries: after an `-o FILE` run nothing but FILE itself may have appeared or changed in FILE's directory (a leftover FILE.tmp is reported as stray-file)".into(),
            "std-free = built only from <=>, <!>, arithmetic, comparisons, control flow, own functions and a second user file".into(),
        ]
    }

    fn health(&self, s: &Stats) -> Result<(), String> {
        for d in ["infra:sylt-binary-missing", "infra:lua-binary-missing", "infra:preamble-unreadable"] {
            if s.discard(d) > 0 {
                return Err(format!(
                    "{}: the real `sylt` binary ({} or $SYLT_BIN) and the mini-Lua `lua` (in {} or $SYLT_LUA_DIR) must exist; run this check through `/verif/check C20 <tier>`, which builds both",
                    d, DEFAULT_SYLT_BIN, DEFAULT_LUA_DIR
                ));
            }
        }
        if s.evaluations < 200 {
            return Ok(());
        }
        let disc: u64 = s.discards.values().sum();
        if disc * 10 > s.evaluations {
            return Err(format!("{} of {} cases discarded: {:?}", disc, s.evaluations, s.discards));
        }
        let need = [
            ("lib:accepted-ok", 0.12),
            ("lib:rejected", 0.15),
            ("lib:runtime-fail", 0.08),
            ("errors:>=2", 0.02),
            ("mode:file-new", 0.08),
            ("mode:file-existing", 0.05),
            ("mode:stdout", 0.08),
            ("mode:run", 0.10),
            ("mode:unwritable-missing-dir", 0.02),
            ("mode:unwritable-parent-is-file", 0.02),
            ("mode:unwritable-is-directory", 0.02),
            ("mode:symlink-to-dev-full", 0.01),
            ("mode:file-size-limited", 0.02),
            ("require:plain", 0.08),
            ("require:suffix", 0.08),
            ("no-std", 0.15),
            ("std-free", 0.25),
            ("uses-std", 0.15),
            ("clause4-compared", 0.03),
            ("clause5-compared", 0.03),
            ("clause6-compared", 0.15),
            ("run-error-printed", 0.02),
            ("hint-agrees", 0.85),
        ];
        for (l, f) in need {
            if s.label_frac(l) < f {
                return Err(format!("class '{}' covers only {:.1}% of the cases (need {:.0}%)", l, s.label_frac(l) * 100.0, f * 100.0));
            }
        }
        if (s.nontrivial as f64) < 0.5 * s.evaluations as f64 {
            return Err(format!("only {} of {} cases are non-trivial", s.nontrivial, s.evaluations));
        }
        Ok(())
    }
}
