//! C19 — composite values compare, order and combine structurally.
//!
//! A case is a (nested) type plus 2-3 literal values of it; one Sylt program prints the result of every operator
//! the type checker admits for them; the printed lines must equal an independent structural model, and the
//! observed booleans must satisfy the algebraic laws of an equivalence and of one total lexicographic order.
//!
//! Finding made by this check (fixed in /repo by e1172db, reproducer replays/C19/known/tuple-add-string-elements.json,
//! signature `C19/tuple-add/string-elements`): `+` on tuples with string elements used raw Lua `+`.
//! Dev switches: `C19_LAWS_ONLY=1` (booleans judged by the laws alone), `C19_SAVE_REJECTED=DIR`.
#[path = "c19_model.rs"]
mod model;
#[path = "c19_gen.rs"]
mod gen;

use arbitrary::Unstructured;
use gen::*;
use model::*;
use serde::{Deserialize, Serialize};
use serde_json::json;
use std::cmp::Ordering;
use std::collections::BTreeMap;
use std::sync::OnceLock;
use vcore::luarun::{run_lua, LuaOutcome, Terminal};
use vcore::{compile, Check, Found, Labels, Outcome, Project, RunCfg, Stats, Step, Tape, Tier, Verdict};

pub struct C19;
pub const CHECK: C19 = C19;
pub fn plan(t: Tier) -> vcore::Plan {
    vcore::Plan::new(t.pick(12_000, 600_000), 700)
}

pub const SIG_STR_TUPLE_ADD: &str = "C19/tuple-add/string-elements";

#[derive(Clone, Debug, PartialEq, Serialize, Deserialize)]
pub struct Case {
    pub ty: Ty,
    pub vals: Vec<Val>,
    /// right operand of `tuple / number`
    pub divisor: Val,
    /// annotate the definitions (`va : T : lit`); forced when a literal contains an empty list
    pub annotate: bool,
    /// values are top-level constants instead of locals of `start`
    pub global: bool,
    /// operands are parenthesised literals instead of variables
    pub inline: bool,
    /// rendered program, for human readers of replay files (re-rendered on evaluation)
    #[serde(default)]
    pub source: String,
    /// "provenance" mode: indices into PROVENANCE - pairs of one value made by the runtime library and the same value
    /// written in the program, which must be equal in every sense (`ty`/`vals` are unused then)
    #[serde(default)]
    pub provenance: Vec<usize>,
    /// binary operators are applied through unannotated generic functions (`zzgdiv :: fn a, b -> * do a / b end`) that the
    /// program uses at several types
    #[serde(default)]
    pub generic_ops: bool,
}

fn generic_name(sym: &str) -> &'static str {
    match sym {
        "+" => "zzgadd",
        "-" => "zzgsub",
        "*" => "zzgmul",
        "/" => "zzgdiv",
        "==" => "zzgeq",
        "!=" => "zzgne",
        "<" => "zzglt",
        ">" => "zzggt",
        "<=" => "zzgle",
        _ => "zzgge",
    }
}

/// (id, setup lines, library-made expression, source-written expression, a different value of the same type)
pub const PROVENANCE: &[(&str, &str, &str, &str, &str)] = &[
    ("list.get-out-of-range", "", "list.get([1, 2, 3], 7)", "zn", "Maybe.Just 2"),
    ("list.get-negative", "", "list.get([1, 2, 3], -1)", "zn", "Maybe.Just 1"),
    ("list.get-hit", "", "list.get([1, 2, 3], 1)", "Maybe.Just 2", "zn"),
    ("list.find-miss", "", "list.find([1, 2, 3], pu x -> x > 5 end)", "zn", "Maybe.Just 3"),
    ("list.find-hit", "", "list.find([1, 2, 3], pu x -> x > 1 end)", "Maybe.Just 2", "zn"),
    ("list.last-empty", "ze: [int] : []", "list.last(ze)", "zn", "Maybe.Just 0"),
    ("list.last", "", "list.last([4, 5])", "Maybe.Just 5", "zn"),
    ("list.pop-empty", "ze: [int] = []", "list.pop(ze)", "zn", "Maybe.Just 0"),
    ("list.pop", "zl := [4, 5]", "list.pop(zl)", "Maybe.Just 5", "zn"),
    ("dict.get-miss", "zd :: dict.from_list([(1, 10)])", "dict.get(zd, 2)", "zn", "Maybe.Just 10"),
    ("dict.get-hit", "zd :: dict.from_list([(1, 10)])", "dict.get(zd, 1)", "Maybe.Just 10", "zn"),
    ("none-in-tuple", "", "(list.get([1, 2, 3], 7), 1)", "(zn, 1)", "(Maybe.Just 1, 1)"),
    ("none-in-list", "", "[list.get([1, 2, 3], 0), list.get([1, 2, 3], 7)]", "[Maybe.Just 1, zn]", "[Maybe.Just 1, Maybe.Just 1]"),
    ("none-in-just", "", "Maybe.Just (list.get([1, 2, 3], 7))", "Maybe.Just zn", "Maybe.Just (Maybe.Just 1)"),
    ("map-result", "", "map([1, 2], pu x -> x + 1 end)", "[2, 3]", "[2, 4]"),
    ("filter-result", "", "filter([1, 2, 3], pu x -> x > 1 end)", "[2, 3]", "[2]"),
    ("filter-empty-result", "ze: [int] : []", "filter([1, 2, 3], pu x -> x > 5 end)", "ze", "[1]"),
    ("maybe.map", "", "maybe.map(Maybe.Just 1, pu x -> x + 1 end)", "Maybe.Just 2", "zn"),
    ("maybe.map-none", "", "maybe.map(zn, pu x -> x + 1 end)", "zn", "Maybe.Just 2"),
];

fn provenance_source(ids: &[usize]) -> String {
    let mut s = String::from("zzsame :: fn a, b, c do\n    print(a == b)\n    print(b == a)\n    print(not (a != b))\n    print(not (b != a))\n    print(a != c)\n    print(not (a == c))\n    print(c != a)\n    a <=> b\nend\nstart :: fn do\n    zn: Maybe(int) : Maybe.None\n");
    for (k, i) in ids.iter().enumerate() {
        let (_, setup, lib, src, other) = PROVENANCE[*i % PROVENANCE.len()];
        s.push_str("    do\n");
        for l in setup.lines() {
            s.push_str(&format!("        {}\n", l));
        }
        s.push_str(&format!("        za{} :: {}\n        zb{} :: {}\n        zc{} :: {}\n        zzsame(za{}, zb{}, zc{})\n    end\n", k, lib, k, src, k, other, k, k, k));
    }
    s.push_str("end\n");
    s
}

fn evaluate_provenance(case: &Case, labels: &mut Labels) -> Verdict {
    labels.add("provenance-mode");
    for i in &case.provenance {
        labels.add(format!("provenance:{}", PROVENANCE[*i % PROVENANCE.len()].0));
    }
    let src = provenance_source(&case.provenance);
    let lua = match compile(&Project::single(src.clone())) {
        Outcome::Accepted(l) => l,
        Outcome::Rejected { errors, .. } => {
            // the templates are meant to be valid Sylt (see health())
            labels.add(format!("provenance-rejected:{}", errors[0].message.chars().take(60).collect::<String>()));
            return Verdict::Discard("provenance-rejected".into());
        }
        Outcome::Panicked { .. } => return Verdict::Discard("compiler-panicked".into()),
    };
    match run_lua(&lua, 2_000_000) {
        LuaOutcome::LoadError { msg, .. } => Verdict::Discard(format!("provenance-load-error:{}", msg.chars().take(40).collect::<String>())),
        LuaOutcome::Ran(t) => {
            let per = 7;
            for (n, line) in t.lines.iter().enumerate() {
                if line != "true" {
                    let which = case.provenance.get(n / per).map(|i| PROVENANCE[*i % PROVENANCE.len()].0).unwrap_or("?");
                    let what = ["a == b", "b == a", "not (a != b)", "not (b != a)", "a != c", "not (a == c)", "c != a"][n % per];
                    return Verdict::Violation {
                        signature: format!("C19/provenance/{}", if n % per < 4 { "library-made-value-differs-from-written-one" } else { "different-values-equal" }),
                        detail: format!("{}: `{}` is {} for a = value made by the runtime library, b = the same value written in the program, c = another value\n--- source ---\n{}", which, what, line, src),
                    };
                }
            }
            if t.lines.len() != per * case.provenance.len() || !matches!(t.terminal, Terminal::Ok) {
                let which = case.provenance.get(t.lines.len() / per).map(|i| PROVENANCE[*i % PROVENANCE.len()].0).unwrap_or("?");
                return Verdict::Violation {
                    signature: "C19/provenance/assert-equal-fails".into(),
                    detail: format!("{}: the program ends with {:?} after {} lines (`a <=> b` of a library-made and a written value)\n--- source ---\n{}", which, t.terminal, t.lines.len(), src),
                };
            }
            Verdict::Pass { nontrivial: true }
        }
    }
}

#[derive(Clone, Copy, Debug, PartialEq)]
pub struct Op {
    pub k: OpK,
    pub i: usize,
    pub j: usize,
}

/// operator applications the property promises but the type checker may refuse: probed once per process by
/// compiling, so that they are exercised as soon as the checker admits them
#[derive(Clone, Copy, Debug)]
struct Probes {
    neg_tuple: bool,
    le_mixed: bool,
}

fn accepted(src: &str) -> bool {
    matches!(compile(&Project::single(src.to_string())), Outcome::Accepted(_))
}

fn probes() -> Probes {
    static P: OnceLock<Probes> = OnceLock::new();
    *P.get_or_init(|| Probes {
        neg_tuple: accepted("start :: fn do\n    va :: (1, 2.5)\n    print(-va)\nend\n"),
        le_mixed: accepted("start :: fn do\n    va :: (1, 2.5)\n    vb :: (1.5, 2)\n    print(va <= vb)\n    print(va >= vb)\nend\n"),
    })
}

const NAMES: [&str; 3] = ["va", "vb", "vc"];
const OPS_PER_FN: usize = 16;
const LOCALS_PER_FN: usize = 120;
const MAX_NODES: usize = 75;

fn nodes(v: &Val) -> usize {
    let mut n = 0;
    scan(v, &mut |_| n += 1);
    n
}

fn has_empty_list(v: &Val) -> bool {
    match v {
        Val::List(vs) => vs.is_empty() || vs.iter().any(has_empty_list),
        Val::Tuple(vs) => vs.iter().any(has_empty_list),
        Val::Blob { fields, .. } => fields.iter().any(has_empty_list),
        Val::Variant(_, Some(p)) => has_empty_list(p),
        _ => false,
    }
}

fn divisor_ty(d: &Val) -> Ty {
    match d {
        Val::Float(_) => Ty::Float,
        _ => Ty::Int,
    }
}

impl Case {
    fn well_formed(&self) -> bool {
        !self.vals.is_empty()
            && self.vals.len() <= 3
            && self.ty.depth() <= 4
            && self.vals.iter().all(|v| conforms(v, &self.ty, true))
            && match &self.divisor {
                Val::Int(i) => *i != 0 && i.unsigned_abs() <= 1 << 31,
                Val::Float(s) => parse_float(s).map(|f| f != 0.0).unwrap_or(false),
                _ => false,
            }
    }

    /// operator applications of the program, in print order
    fn ops(&self, pr: Probes) -> Vec<Op> {
        let n = self.vals.len();
        let tys: Vec<Ty> = self.vals.iter().map(|v| vtype(v, &self.ty)).collect();
        let ms: Vec<M> = self.vals.iter().map(to_m).collect();
        let mut ops = Vec::new();
        for i in 0..n {
            for j in 0..n {
                let same = tys[i] == tys[j];
                let cmp = adm_cmp(&tys[i], &tys[j]);
                if same {
                    ops.push(Op { k: OpK::Eq, i, j });
                    ops.push(Op { k: OpK::Ne, i, j });
                }
                if cmp {
                    ops.push(Op { k: OpK::Lt, i, j });
                    ops.push(Op { k: OpK::Gt, i, j });
                    if same || pr.le_mixed {
                        ops.push(Op { k: OpK::Le, i, j });
                        ops.push(Op { k: OpK::Ge, i, j });
                    }
                }
            }
        }
        for i in 0..n {
            for j in 0..n {
                let small = ints_small(&ms[i]) && ints_small(&ms[j]);
                if small && adm_add(&tys[i], &tys[j]) {
                    ops.push(Op { k: OpK::Add, i, j });
                }
                if small && adm_submul(&tys[i], &tys[j]) {
                    ops.push(Op { k: OpK::Sub, i, j });
                    ops.push(Op { k: OpK::Mul, i, j });
                }
                if small && adm_div(&tys[i], &tys[j]) && !has_zero(&ms[j]) {
                    ops.push(Op { k: OpK::Div, i, j });
                }
            }
        }
        for i in 0..n {
            if ints_small(&ms[i]) && adm_div(&tys[i], &divisor_ty(&self.divisor)) {
                ops.push(Op { k: OpK::DivNum, i, j: 0 });
            }
            if tys[i].is_num() || (pr.neg_tuple && matches!(tys[i], Ty::Tuple(_)) && tys[i].all_num()) {
                ops.push(Op { k: OpK::Neg, i, j: 0 });
            }
        }
        ops
    }

    /// literal operands only while they stay small (every constructor is a Lua local in the emitted code)
    fn inline_eff(&self) -> bool {
        self.inline && self.vals.iter().all(|v| nodes(v) <= 16)
    }

    fn operand(&self, i: usize) -> String {
        if self.inline_eff() {
            format!("({})", val_text(&self.vals[i], &vtype(&self.vals[i], &self.ty), false))
        } else {
            NAMES[i].to_string()
        }
    }

    fn op_text(&self, op: &Op) -> String {
        match op.k {
            OpK::Neg => format!("-{}", self.operand(op.i)),
            OpK::DivNum => {
                let d = val_text(&self.divisor, &divisor_ty(&self.divisor), true);
                let d = if d.starts_with('-') { format!("({})", d) } else { d };
                // printed as the difference to the same quotient computed element by element with scalar divisions: number
                // formatting (%.14g) would hide a last-bit difference, the difference to the exact value does not
                fn rebuilt(base: &str, v: &Val, d: &str) -> String {
                    match v {
                        Val::Tuple(vs) => {
                            let parts: Vec<String> = vs.iter().enumerate().map(|(k, x)| rebuilt(&format!("{}[{}]", base, k), x, d)).collect();
                            if parts.len() == 1 {
                                format!("({},)", parts[0])
                            } else {
                                format!("({})", parts.join(", "))
                            }
                        }
                        _ => format!("{} / {}", base, d),
                    }
                }
                let a = self.operand(op.i);
                let quotient = if self.generic_ops { format!("zzgdiv({}, {})", a, d) } else { format!("{} / {}", a, d) };
                if matches!(self.vals[op.i], Val::Tuple(ref vs) if !vs.is_empty()) {
                    format!("{} - {}", quotient, rebuilt(&a, &self.vals[op.i], &d))
                } else {
                    quotient
                }
            }
            k if self.generic_ops => format!("{}({}, {})", generic_name(k.sym()), self.operand(op.i), self.operand(op.j)),
            k => format!("{} {} {}", self.operand(op.i), k.sym(), self.operand(op.j)),
        }
    }

    /// the program and, per operator application, its 1-based source line
    fn render(&self, ops: &[Op]) -> (String, Vec<usize>) {
        let mut lines: Vec<String> = Vec::new();
        if self.generic_ops {
            for sym in ["+", "-", "*", "/", "==", "!=", "<", ">", "<=", ">="] {
                lines.push(format!("{} :: fn a, b -> * do a {} b end", generic_name(sym), sym));
            }
        }
        let mut d = Vec::new();
        decls(&self.ty, &mut d);
        for s in d {
            for l in s.lines() {
                lines.push(l.to_string());
            }
        }
        let defs: Vec<String> = self
            .vals
            .iter()
            .enumerate()
            .map(|(i, v)| {
                let t = vtype(v, &self.ty);
                if self.annotate || has_empty_list(v) {
                    format!("{} : {} : {}", NAMES[i], type_text(&t), val_text(v, &t, false))
                } else {
                    format!("{} :: {}", NAMES[i], val_text(v, &t, false))
                }
            })
            .collect();
        if self.global {
            lines.extend(defs.iter().cloned());
        }
        // every read and call is a Lua `local` in the emitted code (200 per function is Lua's limit, the open C06
        // finding): the operator applications are spread over functions of at most OPS_PER_FN prints
        let mut at = Vec::new();
        let inline = self.inline_eff();
        let sizes: Vec<usize> = self.vals.iter().map(nodes).collect();
        let defs_cost: usize = if self.global || inline { 0 } else { sizes.iter().sum::<usize>() + sizes.len() };
        let mut parts: Vec<Vec<Op>> = Vec::new();
        let mut cost = usize::MAX;
        for op in ops {
            let c = 7 + if inline { sizes[op.i] + if matches!(op.k, OpK::Neg | OpK::DivNum) { 0 } else { sizes[op.j] } } else { 0 };
            if cost.saturating_add(c) > LOCALS_PER_FN || parts.last().map(|p| p.len() >= OPS_PER_FN).unwrap_or(true) {
                parts.push(Vec::new());
                cost = defs_cost;
            }
            cost += c;
            parts.last_mut().unwrap().push(*op);
        }
        for (n, part) in parts.iter().enumerate() {
            lines.push(format!("part{} :: fn do", n));
            if !self.global && !inline {
                lines.extend(defs.iter().map(|d| format!("    {}", d)));
            }
            for (k, op) in part.iter().enumerate() {
                // `+ - *` on every other pair are written in their compound form: v := a; v += b; print(v)
                if matches!(op.k, OpK::Add | OpK::Sub | OpK::Mul) && (op.i + op.j) % 2 == 1 {
                    let v = format!("zc{}_{}", n, k);
                    lines.push(format!("    {} := {}", v, self.operand(op.i)));
                    lines.push(format!("    {} {}= {}", v, op.k.sym(), self.operand(op.j)));
                    lines.push(format!("    print({})", v));
                } else {
                    lines.push(format!("    print({})", self.op_text(op)));
                }
                at.push(lines.len());
            }
            lines.push("end".into());
        }
        lines.push("start :: fn do".into());
        for n in 0..parts.len() {
            lines.push(format!("    part{}()", n));
        }
        lines.push("end".into());
        (lines.join("\n") + "\n", at)
    }

    fn with_source(mut self) -> Case {
        let ops = self.ops(probes());
        self.source = self.render(&ops).0;
        self
    }
}

/// expected printed line of one operator application
fn expect(op: &Op, ms: &[M], divisor: &M) -> Option<String> {
    let a = &ms[op.i];
    let b = ms.get(op.j)?;
    let r = match op.k {
        OpK::Eq => M::B(m_eq(a, b)),
        OpK::Ne => M::B(!m_eq(a, b)),
        OpK::Lt => M::B(m_cmp(a, b)? == Ordering::Less),
        OpK::Le => M::B(m_cmp(a, b)? != Ordering::Greater),
        OpK::Gt => M::B(m_cmp(a, b)? == Ordering::Greater),
        OpK::Ge => M::B(m_cmp(a, b)? != Ordering::Less),
        OpK::Add | OpK::Sub | OpK::Mul | OpK::Div => m_arith(op.k, a, b)?,
        OpK::DivNum => {
            let q = m_arith(OpK::Div, a, divisor)?;
            // rendered as `a / d - (a[0] / d, ..)` for non-empty tuples: the exact difference, all zeros
            if matches!(a, M::T(ref xs) if !xs.is_empty()) {
                m_arith(OpK::Sub, &q, &q)?
            } else {
                q
            }
        }
        OpK::Neg => m_neg(a)?,
    };
    show(&r)
}

/// the algebraic laws on the observed booleans; returns (law, explanation)
fn laws(n: usize, obs: &BTreeMap<(OpK, usize, usize), bool>) -> Option<(&'static str, String)> {
    let g = |k: OpK, i: usize, j: usize| obs.get(&(k, i, j)).copied();
    let nm = |i: usize| NAMES[i];
    for i in 0..n {
        if g(OpK::Eq, i, i) == Some(false) {
            return Some(("eq-reflexive", format!("{0} == {0} is false", nm(i))));
        }
        if g(OpK::Lt, i, i) == Some(true) {
            return Some(("lt-irreflexive", format!("{0} < {0} is true", nm(i))));
        }
        for j in 0..n {
            if let (Some(x), Some(y)) = (g(OpK::Eq, i, j), g(OpK::Eq, j, i)) {
                if x != y {
                    return Some(("eq-symmetric", format!("{0} == {1} is {2} but {1} == {0} is {3}", nm(i), nm(j), x, y)));
                }
            }
            if let (Some(x), Some(y)) = (g(OpK::Eq, i, j), g(OpK::Ne, i, j)) {
                if x == y {
                    return Some(("ne-complement", format!("{0} == {1} and {0} != {1} are both {2}", nm(i), nm(j), x)));
                }
            }
            if let (Some(le), Some(lt), Some(eq)) = (g(OpK::Le, i, j), g(OpK::Lt, i, j), g(OpK::Eq, i, j)) {
                if le != (lt || eq) {
                    return Some(("le-is-lt-or-eq", format!("{0} <= {1} is {2} but < is {3} and == is {4}", nm(i), nm(j), le, lt, eq)));
                }
            }
            if let (Some(gt), Some(lt)) = (g(OpK::Gt, i, j), g(OpK::Lt, j, i)) {
                if gt != lt {
                    return Some(("gt-is-flipped-lt", format!("{0} > {1} is {2} but {1} < {0} is {3}", nm(i), nm(j), gt, lt)));
                }
            }
            if let (Some(ge), Some(le)) = (g(OpK::Ge, i, j), g(OpK::Le, j, i)) {
                if ge != le {
                    return Some(("ge-is-flipped-le", format!("{0} >= {1} is {2} but {1} <= {0} is {3}", nm(i), nm(j), ge, le)));
                }
            }
            if let (Some(lt), Some(gt)) = (g(OpK::Lt, i, j), g(OpK::Gt, i, j)) {
                match g(OpK::Eq, i, j) {
                    Some(eq) => {
                        let c = lt as u8 + gt as u8 + eq as u8;
                        if c != 1 {
                            return Some(("trichotomy", format!("of {0} < {1} ({2}), {0} == {1} ({3}), {0} > {1} ({4}) exactly one must hold", nm(i), nm(j), lt, eq, gt)));
                        }
                    }
                    None => {
                        if lt && gt {
                            return Some(("trichotomy", format!("{0} < {1} and {0} > {1} both hold", nm(i), nm(j))));
                        }
                    }
                }
            }
            for k in 0..n {
                if g(OpK::Lt, i, j) == Some(true) && g(OpK::Lt, j, k) == Some(true) && g(OpK::Lt, i, k) == Some(false) {
                    return Some(("lt-transitive", format!("{0} < {1} and {1} < {2} but not {0} < {2}", nm(i), nm(j), nm(k))));
                }
                if g(OpK::Eq, i, j) == Some(true) && g(OpK::Eq, j, k) == Some(true) && g(OpK::Eq, i, k) == Some(false) {
                    return Some(("eq-transitive", format!("{0} == {1} and {1} == {2} but not {0} == {2}", nm(i), nm(j), nm(k))));
                }
            }
        }
    }
    None
}

/// index of the first differing element of two root tuples / lists
fn first_diff(a: &M, b: &M) -> Option<usize> {
    match (a, b) {
        (M::T(x), M::T(y)) | (M::L(x), M::L(y)) => {
            for k in 0..x.len().min(y.len()) {
                if !m_eq(&x[k], &y[k]) {
                    return Some(k);
                }
            }
            if x.len() != y.len() {
                Some(x.len().min(y.len()))
            } else {
                None
            }
        }
        _ => None,
    }
}

/// corresponding string leaves one of which is a proper prefix of the other
fn prefix_pair(a: &M, b: &M) -> bool {
    match (a, b) {
        (M::S(x), M::S(y)) => x != y && (x.starts_with(y.as_str()) || y.starts_with(x.as_str())),
        (M::T(x), M::T(y)) | (M::L(x), M::L(y)) | (M::Blob(x), M::Blob(y)) => x.iter().zip(y).any(|(p, q)| prefix_pair(p, q)),
        (M::Var(i, Some(p)), M::Var(j, Some(q))) => i == j && prefix_pair(p, q),
        _ => false,
    }
}

fn scan(v: &Val, f: &mut dyn FnMut(&Val)) {
    f(v);
    match v {
        Val::Tuple(vs) | Val::List(vs) => vs.iter().for_each(|x| scan(x, f)),
        Val::Blob { fields, .. } => fields.iter().for_each(|x| scan(x, f)),
        Val::Variant(_, Some(p)) => scan(p, f),
        _ => {}
    }
}

impl Check for C19 {
    type Case = Case;
    fn id(&self) -> &'static str {
        "C19"
    }

    fn generate(&self, u: &mut Unstructured, _tier: Tier) -> Option<Case> {
        let mut t = Tape::new(u);
        if t.chance(1, 10) {
            let n = 1 + t.below(3);
            let provenance: Vec<usize> = (0..n).map(|_| t.below(PROVENANCE.len())).collect();
            let source = provenance_source(&provenance);
            return Some(Case { ty: Ty::Int, vals: vec![Val::Int(0)], divisor: Val::Int(2), annotate: false, global: false, inline: false, source, provenance, generic_ops: false });
        }
        let profile = [Profile::Any, Profile::Ord, Profile::Arith][t.weighted(&[36, 32, 32])];
        let depth = 1 + t.weighted(&[30, 45, 25]);
        let mut g = G { t: &mut t, next_id: 0 };
        let ty = g.ty(depth, profile, true);
        let big_ok = profile == Profile::Ord && g.t.chance(1, 3);
        let n = 2 + g.t.weighted(&[40, 60]);
        let mut vals = vec![g.val(&ty, big_ok)];
        while vals.len() < n {
            let v = g.derive(&vals, &ty, big_ok);
            vals.push(v);
        }
        let divisor = match g.t.weighted(&[3, 2, 2, 1, 1, 1]) {
            0 => Val::Int(2),
            1 => Val::Float("0.5".into()),
            2 => Val::Int(-4),
            3 => Val::Int(3),
            4 => Val::Float("2.5".into()),
            _ => Val::Float("-0.1".into()),
        };
        let annotate = g.t.chance(1, 3);
        let global = g.t.chance(1, 5);
        let inline = g.t.chance(1, 6);
        let generic_ops = g.t.chance(1, 5);
        Some(Case { ty, vals, divisor, annotate, global, inline, source: String::new(), provenance: Vec::new(), generic_ops }.with_source())
    }

    fn evaluate(&self, case: &Case, labels: &mut Labels) -> Verdict {
        if !case.provenance.is_empty() {
            return evaluate_provenance(case, labels);
        }
        if !case.well_formed() {
            return Verdict::Discard("malformed-case".into());
        }
        if case.generic_ops {
            labels.add("operators-through-generic-functions");
        }
        let pr = probes();
        let kind = case.ty.kind();
        let n = case.vals.len();
        let tys: Vec<Ty> = case.vals.iter().map(|v| vtype(v, &case.ty)).collect();
        let ms: Vec<M> = case.vals.iter().map(to_m).collect();
        let ops = case.ops(pr);
        let (src, at) = case.render(&ops);

        // ---- classification
        labels.add(format!("type:{}", kind));
        labels.add(format!("depth:{}", case.ty.depth()));
        let mixed = (0..n).any(|i| (0..n).any(|j| tys[i] != tys[j]));
        if mixed {
            labels.add("mixed-int-float");
            if !pr.le_mixed {
                labels.add("operator-not-admitted:<=:int-vs-float");
            }
        }
        if !pr.neg_tuple && tys.iter().any(|t| matches!(t, Ty::Tuple(_)) && t.all_num()) {
            labels.add("operator-not-admitted:neg:tuple");
        }
        let (mut negzero, mut nonascii, mut emptystr, mut empty_comp, mut single, mut bigint) = (false, false, false, false, false, false);
        for v in &case.vals {
            scan(v, &mut |x| match x {
                Val::Float(s) if s == "-0.0" => negzero = true,
                Val::Str(s) => {
                    nonascii |= !s.is_ascii();
                    emptystr |= s.is_empty();
                }
                Val::Tuple(vs) | Val::List(vs) => {
                    empty_comp |= vs.is_empty();
                    single |= vs.len() == 1;
                }
                Val::Int(i) => bigint |= i.unsigned_abs() > 1 << 31,
                _ => {}
            });
        }
        for (f, l) in [(negzero, "neg-zero"), (nonascii, "non-ascii-string"), (emptystr, "empty-string"), (empty_comp, "empty-tuple-or-list"), (single, "singleton-tuple-or-list"), (bigint, "big-int")] {
            if f {
                labels.add(l);
            }
        }
        let mut late = false;
        let mut equal_pair = false;
        let mut prefix_str = false;
        for i in 0..n {
            for j in 0..n {
                if i < j {
                    if m_cmp(&ms[i], &ms[j]) == Some(Ordering::Equal) || (tys[i] == tys[j] && m_eq(&ms[i], &ms[j])) {
                        equal_pair = true;
                    }
                    if first_diff(&ms[i], &ms[j]).map(|k| k >= 1).unwrap_or(false) {
                        late = true;
                    }
                    prefix_str |= prefix_pair(&ms[i], &ms[j]);
                }
            }
        }
        if equal_pair {
            labels.add("equal-pair");
        }
        if late {
            labels.add("differ-late");
        }
        if prefix_str {
            labels.add("string-prefix-pair");
        }
        let mut seen = std::collections::BTreeSet::new();
        for op in &ops {
            if seen.insert(op.k) {
                labels.add(format!("op:{}", op.k.name()));
            }
        }
        if ops.iter().any(|o| o.k == OpK::Add && matches!(tys[o.i], Ty::Tuple(_)) && tys[o.i].tuple_str_leaf()) {
            labels.add("op:add-on-tuple-with-strings");
        }
        if ops.is_empty() {
            return Verdict::Discard("no-operator-applies".into());
        }
        if case.vals.iter().map(nodes).sum::<usize>() > MAX_NODES {
            return Verdict::Discard("values-too-large".into());
        }

        // ---- expected lines
        let dm = to_m(&case.divisor);
        let mut expected = Vec::with_capacity(ops.len());
        for op in &ops {
            match expect(op, &ms, &dm) {
                Some(s) => expected.push(s),
                None => return Verdict::Discard("model-undefined".into()),
            }
        }

        // ---- compile
        let out = compile(&Project::single(src.clone()));
        let lua = match &out {
            Outcome::Accepted(b) => b,
            Outcome::Rejected { errors, bytes_written } => {
                if *bytes_written > 0 {
                    return Verdict::Violation {
                        signature: "C19/rejected-but-wrote-lua".into(),
                        detail: format!("{} bytes of Lua written although compilation failed: {}", bytes_written, out.short()),
                    };
                }
                let e = &errors[0];
                if case.generic_ops {
                    // the same operator applications written directly: when those are accepted, going through a generic
                    // function must not get them rejected
                    let mut direct = case.clone();
                    direct.generic_ops = false;
                    let (dsrc, _) = direct.render(&ops);
                    if let Outcome::Accepted(_) = compile(&Project::single(dsrc.clone())) {
                        return Verdict::Violation {
                            signature: "C19/rejected-through-generic-function".into(),
                            detail: format!(
                                "the operator applications of this program are accepted when written directly and rejected when they go through unannotated generic functions: {}\n--- through generic functions ---\n{}\n--- direct ---\n{}",
                                out.short(),
                                src,
                                dsrc
                            ),
                        };
                    }
                }
                if let Some(p) = at.iter().position(|l| *l == e.line) {
                    labels.add(format!("operator-not-admitted:{}:{}", ops[p].k.sym(), kind));
                    if let Ok(d) = std::env::var("C19_SAVE_REJECTED") {
                        let _ = std::fs::create_dir_all(&d);
                        let _ = std::fs::write(format!("{}/rej_{:x}.sy", d, vcore::hash64(&src)), format!("// {}\n{}", out.short(), src));
                    }
                    return Verdict::Discard("rejected-operator".into());
                }
                labels.add(format!("rejected:{}:{}", e.kind, e.sub));
                if let Ok(d) = std::env::var("C19_SAVE_REJECTED") {
                    let _ = std::fs::create_dir_all(&d);
                    let _ = std::fs::write(format!("{}/rej_{:x}.sy", d, vcore::hash64(&src)), format!("// {}\n{}", out.short(), src));
                }
                return Verdict::Discard("rejected".into());
            }
            Outcome::Panicked { .. } => {
                labels.add("compiler-panicked");
                return Verdict::Discard("compiler-panicked".into());
            }
        };
        labels.add("accepted");

        // ---- run
        let got = match run_lua(lua, 5_000_000) {
            LuaOutcome::LoadError { class, msg, line } => {
                return Verdict::Violation {
                    signature: format!("C19/lua-load/{}", class),
                    detail: format!("emitted chunk does not load: {} (chunk line {})\n--- source ---\n{}", msg, line, src),
                };
            }
            LuaOutcome::Ran(t) => t,
        };
        if let Terminal::OutOfBudget(w) = &got.terminal {
            return Verdict::Discard(format!("lua-budget-{}", w));
        }
        let sig_for = |op: &Op, class: &str| -> String {
            let trigger = op.k == OpK::Add && matches!(tys[op.i], Ty::Tuple(_)) && tys[op.i].tuple_str_leaf();
            if trigger {
                SIG_STR_TUPLE_ADD.to_string()
            } else {
                format!("C19/{}/{}/{}", class, op.k.name(), kind)
            }
        };
        let m = expected.len().min(got.lines.len());
        // dev switch for sensitivity runs of the law oracle alone: booleans are not compared with the model
        let laws_only = std::env::var("C19_LAWS_ONLY").is_ok();
        for p in 0..m {
            if expected[p] != got.lines[p] && !(laws_only && ops[p].k.is_bool()) {
                return Verdict::Violation {
                    signature: sig_for(&ops[p], "value"),
                    detail: format!(
                        "`{}` (source line {}) printed {:?}, the structural definition gives {:?}\n--- source ---\n{}",
                        case.op_text(&ops[p]),
                        at[p],
                        got.lines[p],
                        expected[p],
                        src
                    ),
                };
            }
        }
        if got.lines.len() < expected.len() {
            let p = got.lines.len();
            let (class, what) = match &got.terminal {
                Terminal::LuaError { class, msg } => (format!("lua-error-{}", class), msg.clone()),
                other => ("output-missing".to_string(), format!("{:?}", other)),
            };
            return Verdict::Violation {
                signature: sig_for(&ops[p], &class),
                detail: format!(
                    "`{}` (source line {}) should print {:?}; the program stopped there: {}\n--- source ---\n{}",
                    case.op_text(&ops[p]),
                    at[p],
                    expected[p],
                    what,
                    src
                ),
            };
        }
        if got.lines.len() > expected.len() || got.terminal != Terminal::Ok {
            return Verdict::Violation {
                signature: format!("C19/trace/{}", kind),
                detail: format!("{} lines expected, {} printed, terminal {:?}\n--- source ---\n{}", expected.len(), got.lines.len(), got.terminal, src),
            };
        }

        // ---- laws on the observed booleans (independent of the model)
        let mut obs = BTreeMap::new();
        for (p, op) in ops.iter().enumerate() {
            if op.k.is_bool() {
                match got.lines[p].as_str() {
                    "true" => {
                        obs.insert((op.k, op.i, op.j), true);
                    }
                    "false" => {
                        obs.insert((op.k, op.i, op.j), false);
                    }
                    _ => {}
                }
            }
        }
        if let Some((law, what)) = laws(n, &obs) {
            return Verdict::Violation { signature: format!("C19/law/{}/{}", law, kind), detail: format!("{}\n--- source ---\n{}", what, src) };
        }
        let nontrivial = case.ty.depth() >= 2 || late;
        Verdict::Pass { nontrivial }
    }

    fn simplify_at(&self, case: &Case, idx: usize) -> Step<Case> {
        if !case.provenance.is_empty() {
            // fewer pairs
            return if case.provenance.len() > 1 && idx < case.provenance.len() {
                let mut c = case.clone();
                c.provenance.remove(idx);
                c.source = provenance_source(&c.provenance);
                Step::Candidate(c)
            } else {
                Step::End
            };
        }
        let mut cands: Vec<Option<Case>> = Vec::new();
        let base = case.clone();
        // fewer values
        for k in (0..case.vals.len()).rev() {
            if case.vals.len() > 1 {
                let mut c = base.clone();
                c.vals.remove(k);
                cands.push(Some(c));
            }
        }
        // plainer rendering
        for f in 0..4 {
            let mut c = base.clone();
            match f {
                0 => c.annotate = false,
                1 => c.global = false,
                2 => c.inline = false,
                _ => c.divisor = Val::Int(2),
            }
            cands.push(Some(c));
        }
        // smaller type
        let mut nodes = Vec::new();
        type_nodes(&case.ty, &mut Vec::new(), &mut nodes);
        for path in nodes.iter().take(40) {
            for e in 0..8 {
                for edit in [Edit::Hoist(e), Edit::Drop(e)] {
                    let c = edit_ty(&case.ty, path, edit).and_then(|ty| {
                        let vals = case.vals.iter().map(|v| edit_val(v, path, edit)).collect::<Option<Vec<Val>>>()?;
                        Some(Case { ty, vals, ..base.clone() })
                    });
                    cands.push(c);
                }
            }
        }
        // equal values, simpler values
        for i in 0..case.vals.len() {
            for j in 0..case.vals.len() {
                if i != j {
                    let mut c = base.clone();
                    c.vals[i] = case.vals[j].clone();
                    cands.push(Some(c));
                }
            }
        }
        for i in 0..case.vals.len() {
            for s in simpler_values(&case.vals[i]).into_iter().take(60) {
                let mut c = base.clone();
                c.vals[i] = s;
                cands.push(Some(c));
            }
        }
        match cands.into_iter().nth(idx) {
            None => Step::End,
            Some(None) => Step::Skip,
            Some(Some(c)) => {
                let c = c.with_source();
                if c == *case || !c.well_formed() {
                    Step::Skip
                } else {
                    Step::Candidate(c)
                }
            }
        }
    }

    fn sample(&self, case: &Case) -> serde_json::Value {
        json!({ "type": type_text(&case.ty), "source": vcore::truncate_value(json!(case.source), 2048) })
    }

    fn rule(&self) -> String {
        "cases: a random (nested, depth <= 3) type - tuples of int/float/str/bool/tuples, lists, declared blobs without function \
         fields, declared payload and payload-less enums - and 2-3 literal values of it (equal copies, late single differences, \
         swapped components, -0.0/0.0, int-vs-float leaves where `<`/`>`/`/` admit them, empty/singleton tuples and lists, \
         prefix and non-ASCII strings); one program prints every operator application the type checker admits (`+ - *` on every other pair in their compound form `v := a; v += b; print(v)`) (== != < <= > >= on \
         every ordered pair incl. a value with itself, + - * /, tuple / number, unary -); oracle: each printed line equals an \
         independent structural model (structural equality, one lexicographic order with exact int/float comparison and bytewise \
         strings, element-wise wrapping-int / IEEE arithmetic, Lua 5.3 number formatting) AND the observed booleans satisfy \
         reflexivity, symmetry, complement, <= iff < or ==, > / >= as flipped < / <=, trichotomy, transitivity of < and ==; \
         non-trivial = accepted, type of nesting depth >= 2 or a pair of values that first differs at position >= 2; distinct by hash of the case"
            .into()
    }

    fn assumptions(&self) -> Vec<String> {
        vec![
            "mini-Lua (harness/minilua) agrees with Lua 5.3 on metamethod dispatch (__eq only for two distinct tables, > and >= by swapping), exact int/float comparison, bytewise string order (C locale) and %.14g formatting".into(),
            "domain: no NaN, no zero divisors (IEEE inf is left out of the contract), |int| <= 2^31 and |float| <= 1e9 wherever arithmetic is applied; int/float mixtures only where the type checker admits them (`<`, `>`, `/`)".into(),
            "operators the property mentions but the type checker rejects (unary - on tuples, <= / >= between int and float) are recorded as operator-not-admitted and are exercised automatically once the checker admits them; C19 speaks about what accepted programs compute".into(),
            "blob values are never printed whole (pairs order); only booleans and tuples of numbers/strings are printed".into(),
        ]
    }

    fn extra_phase(&self, _cfg: &RunCfg, stats: &mut Stats) -> Vec<Found> {
        let (matrix, mismatches, not_admitted) = vcore::on_big_stack(256, admitted_matrix);
        stats.extra.insert("admitted_matrix".into(), matrix);
        stats.extra.insert("admitted_matrix_vs_predicate_mismatches".into(), json!(mismatches));
        stats.extra.insert("promised_but_not_admitted".into(), json!(not_admitted));
        Vec::new()
    }

    fn health(&self, s: &Stats) -> Result<(), String> {
        if let Some(m) = s.extra.get("admitted_matrix_vs_predicate_mismatches").and_then(|m| m.as_array()) {
            if !m.is_empty() {
                return Err(format!("the check's model of which operators the type checker admits no longer matches the checker: {}", serde_json::Value::Array(m.clone())));
            }
        }
        if s.evaluations < 500 {
            return Ok(());
        }
        let ev = s.evaluations as f64;
        let rendered = ev - s.discard("no-operator-applies") as f64 - s.discard("malformed-case") as f64 - s.discard("values-too-large") as f64;
        let acc = s.label("accepted") as f64 / rendered.max(1.0);
        if acc < 0.9 {
            return Err(format!("only {:.1}% of rendered programs are accepted by the compiler", acc * 100.0));
        }
        if (s.nontrivial as f64) < 0.4 * ev {
            return Err(format!("only {} of {} cases are non-trivial", s.nontrivial, s.evaluations));
        }
        for (l, min) in [
            ("type:tuple", 0.30),
            ("type:list", 0.03),
            ("type:blob", 0.03),
            ("type:enum", 0.03),
            ("mixed-int-float", 0.02),
            ("neg-zero", 0.03),
            ("non-ascii-string", 0.03),
            ("empty-tuple-or-list", 0.03),
            ("singleton-tuple-or-list", 0.03),
            ("equal-pair", 0.10),
            ("differ-late", 0.10),
            ("string-prefix-pair", 0.02),
            ("op:eq", 0.5),
            ("op:lt", 0.3),
            ("op:le", 0.3),
            ("op:add", 0.15),
            ("op:add-on-tuple-with-strings", 0.03),
            ("op:sub", 0.15),
            ("op:div", 0.10),
            ("op:div-by-number", 0.10),
        ] {
            if s.label_frac(l) < min {
                return Err(format!("class {:?} appears in only {:.1}% of the cases (minimum {:.0}%)", l, s.label_frac(l) * 100.0, min * 100.0));
            }
        }
        Ok(())
    }
}

/// operator x type-class matrix obtained by compiling one tiny program per cell, compared with the predicates
/// the generator uses. Returns (matrix, mismatches, promised-but-not-admitted).
fn admitted_matrix() -> (serde_json::Value, Vec<String>, Vec<String>) {
    let b = |fields: Vec<Val>| Val::Blob { fields, rev: false };
    let t = |v: Vec<Val>| Val::Tuple(v);
    let f = |s: &str| Val::Float(s.to_string());
    let s = |x: &str| Val::Str(x.to_string());
    // (class, base type, left value, right value)
    let classes: Vec<(&str, Ty, Val, Val)> = vec![
        ("int", Ty::Int, Val::Int(1), Val::Int(2)),
        ("float", Ty::Float, f("1.5"), f("2.5")),
        ("str", Ty::Str, s("a"), s("b")),
        ("bool", Ty::Bool, Val::Bool(true), Val::Bool(false)),
        ("int-vs-float", Ty::Int, Val::Int(1), f("1.5")),
        ("tuple-of-numbers", Ty::Tuple(vec![Ty::Int, Ty::Float]), t(vec![Val::Int(1), f("2.5")]), t(vec![Val::Int(3), f("0.5")])),
        ("tuple-int-vs-float", Ty::Tuple(vec![Ty::Int, Ty::Float]), t(vec![Val::Int(1), f("2.5")]), t(vec![f("1.5"), Val::Int(2)])),
        ("tuple-of-strings", Ty::Tuple(vec![Ty::Str, Ty::Str]), t(vec![s("a"), s("b")]), t(vec![s("a"), s("c")])),
        ("tuple-str-and-number", Ty::Tuple(vec![Ty::Str, Ty::Int]), t(vec![s("a"), Val::Int(1)]), t(vec![s("a"), Val::Int(2)])),
        ("tuple-with-bool", Ty::Tuple(vec![Ty::Int, Ty::Bool]), t(vec![Val::Int(1), Val::Bool(true)]), t(vec![Val::Int(1), Val::Bool(false)])),
        (
            "nested-tuple-of-numbers",
            Ty::Tuple(vec![Ty::Tuple(vec![Ty::Int, Ty::Int]), Ty::Float]),
            t(vec![t(vec![Val::Int(1), Val::Int(2)]), f("2.5")]),
            t(vec![t(vec![Val::Int(1), Val::Int(3)]), f("0.5")]),
        ),
        ("empty-tuple", Ty::Tuple(vec![]), t(vec![]), t(vec![])),
        ("singleton-tuple", Ty::Tuple(vec![Ty::Int]), t(vec![Val::Int(1)]), t(vec![Val::Int(2)])),
        ("tuple-with-list", Ty::Tuple(vec![Ty::Int, Ty::List(Box::new(Ty::Int))]), t(vec![Val::Int(1), Val::List(vec![Val::Int(1)])]), t(vec![Val::Int(1), Val::List(vec![])])),
        ("list", Ty::List(Box::new(Ty::Int)), Val::List(vec![Val::Int(1), Val::Int(2)]), Val::List(vec![Val::Int(1)])),
        ("blob", Ty::Blob(0, vec![Ty::Int, Ty::Str]), b(vec![Val::Int(1), s("a")]), b(vec![Val::Int(1), s("b")])),
        ("enum", Ty::Enum(0, vec![None, Some(Ty::Int)]), Val::Variant(0, None), Val::Variant(1, Some(Box::new(Val::Int(3))))),
    ];
    let all = [OpK::Eq, OpK::Ne, OpK::Lt, OpK::Le, OpK::Gt, OpK::Ge, OpK::Add, OpK::Sub, OpK::Mul, OpK::Div, OpK::DivNum, OpK::Neg];
    let pr = probes();
    let mut matrix = serde_json::Map::new();
    let mut mismatches = Vec::new();
    let mut not_admitted = Vec::new();
    for (name, ty, x, y) in classes {
        let case = Case { ty: ty.clone(), vals: vec![x.clone(), y.clone()], divisor: Val::Int(2), annotate: true, global: false, inline: false, source: String::new(), provenance: Vec::new(), generic_ops: false };
        let predicted = case.ops(pr);
        let mut row = serde_json::Map::new();
        for k in all {
            let op = Op { k, i: 0, j: if matches!(k, OpK::DivNum | OpK::Neg) { 0 } else { 1 } };
            let (src, _) = case.render(&[op]);
            let adm = accepted(&src);
            row.insert(k.name().to_string(), json!(adm));
            let pred = predicted.iter().any(|o| o.k == k && o.i == op.i && o.j == op.j);
            if pred != adm {
                mismatches.push(format!("{} on {}: checker {}, predicate {}", k.name(), name, if adm { "admits" } else { "rejects" }, if pred { "admits" } else { "rejects" }));
            }
            // what the property text promises for this class
            let (tx, ty2) = (vtype(&x, &ty), vtype(&y, &ty));
            let promised = match k {
                OpK::Lt | OpK::Le | OpK::Gt | OpK::Ge => adm_cmp(&tx, &ty2),
                OpK::Neg => tx.all_num(),
                _ => false,
            };
            if promised && !adm {
                not_admitted.push(format!("{}:{}", k.sym(), name));
            }
        }
        matrix.insert(name.to_string(), serde_json::Value::Object(row));
    }
    (serde_json::Value::Object(matrix), mismatches, not_admitted)
}
