//! C03 helper: the catalogue of *definite* type mismatches. Every spelling uses literals only, or names whose
//! type is fixed by an annotation / literal initialiser written in the planted text itself (fresh `zq…` names),
//! so the mismatch never depends on types inferred from the surrounding program. Each spelling comes with a
//! well-typed twin of the same nominal type.
use syltmodel::ast::Ty;

/// choice source: bytes drawn from the tape *before* the base program is generated (so that an exhausted
/// tape does not pin every plant to the first alternative); exhausted => 0 = first alternative
#[derive(Clone, Debug)]
pub struct Sel {
    pub bytes: Vec<u8>,
    pub i: usize,
}
impl Sel {
    pub fn byte(&mut self) -> usize {
        let b = self.bytes.get(self.i).copied().unwrap_or(0) as usize;
        self.i += 1;
        b
    }
    pub fn below(&mut self, n: usize) -> usize {
        if n <= 1 {
            return 0;
        }
        if n <= 128 {
            (self.byte() * n) >> 8
        } else {
            let v = (self.byte() << 8) | self.byte();
            (v * n) >> 16
        }
    }
    pub fn chance(&mut self, num: usize, den: usize) -> bool {
        self.byte() * den >= (den - num) * 256 && num > 0
    }
    pub fn pick<'t, T>(&mut self, xs: &'t [T]) -> &'t T {
        &xs[self.below(xs.len())]
    }
}

#[derive(Clone, Copy, PartialEq, Eq, Debug)]
pub enum P {
    Int,
    Float,
    Str,
    Bool,
}
pub const PRIMS: [P; 4] = [P::Int, P::Float, P::Str, P::Bool];

impl P {
    pub fn of(t: &Ty) -> Option<P> {
        match t {
            Ty::Int => Some(P::Int),
            Ty::Float => Some(P::Float),
            Ty::Str => Some(P::Str),
            Ty::Bool => Some(P::Bool),
            _ => None,
        }
    }
    pub fn ty(self) -> Ty {
        match self {
            P::Int => Ty::Int,
            P::Float => Ty::Float,
            P::Str => Ty::Str,
            P::Bool => Ty::Bool,
        }
    }
    pub fn name(self) -> &'static str {
        match self {
            P::Int => "int",
            P::Float => "float",
            P::Str => "str",
            P::Bool => "bool",
        }
    }
    pub fn lit(self, k: usize) -> &'static str {
        match self {
            P::Int => ["1", "42", "0", "7"][k % 4],
            P::Float => ["1.0", "2.5", "0.5", "10.0"][k % 4],
            P::Str => ["\"a\"", "\"abc\"", "\"\"", "\"x y\""][k % 4],
            P::Bool => ["true", "false"][k % 2],
        }
    }
    /// a well-typed non-literal expression of this type
    pub fn twin(self, k: usize) -> &'static str {
        match self {
            P::Int => ["1 + 2", "3 * 4", "7 - 2"][k % 3],
            P::Float => ["1.0 + 2.5", "1 / 2", "0.5 * 2.5"][k % 3],
            P::Str => ["\"a\" + \"b\"", "\"abc\" + \"\""][k % 2],
            P::Bool => ["1 < 2", "not false", "true and false", "\"a\" == \"b\""][k % 4],
        }
    }
    pub fn other(self, s: &mut Sel) -> P {
        let o: Vec<P> = PRIMS.iter().copied().filter(|p| *p != self).collect();
        *s.pick(&o)
    }
}

#[derive(Clone, Debug, PartialEq)]
pub enum Form {
    /// an expression; `Some(ty)` = its nominal type (it may replace an expression of that type),
    /// `None` = usable in statement position / as an initialiser only
    Expr(Option<Ty>),
    /// one or more complete statement lines
    Stmt,
}

#[derive(Clone, Debug)]
pub struct Plant {
    pub kind: &'static str,
    /// the mismatch; may refer to the blob `Zqb { zf: int, zg: str }` and to the helper functions
    /// `zqg<r> :: pu zqa: int, zqb: str -> <r>`, which the check declares at top level when the text mentions them
    pub bad: String,
    /// the legal twin
    pub good: String,
    pub form: Form,
}

/// what the site allows
#[derive(Clone, Debug)]
pub struct Env {
    pub pure_: bool,
    /// declared (annotated) return type of the innermost function when it is a primitive
    pub ret: Option<P>,
    /// statement plants are allowed (false at expression sites and global initialisers)
    pub stmts: bool,
}

pub const ALL_KINDS: &[&str] = &[
    "op-add",
    "op-sub",
    "op-mul",
    "op-div",
    "op-eq",
    "op-cmp",
    "op-not",
    "op-and-or",
    "neg-non-number",
    "tuple-op",
    "list-hetero",
    "call-too-few",
    "call-too-many",
    "call-arg-type",
    "param-annot",
    "var-annot",
    "ret-annot-implicit",
    "ret-annot-explicit",
    "ret-in-block",
    "ret-in-if",
    "ret-enclosing",
    "field-init",
    "field-assign",
    "assign",
    "if-cond",
    "elif-cond",
    "loop-cond",
    "cond-literal",
    "call-non-fn",
    "void-store",
    "generic",
    "blob-type",
];

pub fn family_of(kind: &str) -> &'static str {
    match kind {
        "op-add" | "op-sub" | "op-mul" | "op-div" | "op-eq" | "op-cmp" | "op-not" | "op-and-or" | "neg-non-number" | "tuple-op" => "operator",
        "call-too-few" | "call-too-many" | "call-arg-type" => "call",
        "param-annot" | "var-annot" | "ret-annot-implicit" | "ret-annot-explicit" | "ret-in-block" | "ret-in-if" | "ret-enclosing" | "field-init" | "field-assign"
        | "assign" => "declared-type",
        "if-cond" | "elif-cond" | "loop-cond" | "cond-literal" => "condition",
        "list-hetero" => "list",
        "call-non-fn" => "non-function",
        "void-store" => "void",
        "generic" => "generic",
        "blob-type" => "blob",
        _ => "other",
    }
}

pub fn gfn_name(r: P) -> &'static str {
    match r {
        P::Int => "zqgi",
        P::Float => "zqgf",
        P::Str => "zqgs",
        P::Bool => "zqgb",
    }
}
fn plant(kind: &'static str, bad: String, good: String, form: Form) -> Plant {
    Plant { kind, bad, good, form }
}

fn cmp_legal(a: P, b: P) -> bool {
    matches!((a, b), (P::Int, P::Int) | (P::Float, P::Float) | (P::Int, P::Float) | (P::Float, P::Int) | (P::Str, P::Str))
}

/// bad argument lists for a function `(int, str)`
const TOO_FEW: &[&str] = &["1", "", "\"s\""];
const TOO_MANY: &[&str] = &["1, \"s\", 2", "1, \"s\", \"t\"", "1, \"s\", 1, \"s\""];
const ARG_TYPE: &[&str] = &["1, 2", "\"s\", \"s\"", "1.0, \"s\"", "true, \"s\"", "\"s\", 1", "1, true", "1, [\"s\"]", "(1,), \"s\""];

fn tuple_spellings() -> Vec<(&'static str, &'static str, Ty)> {
    let ii = Ty::Tuple(vec![Ty::Int, Ty::Int]);
    let ib = Ty::Tuple(vec![Ty::Int, Ty::Bool]);
    vec![
        ("(1, 2) + (1, \"a\")", "(1, 2) + (3, 4)", ii.clone()),
        ("(1, 2) == (1, 2, 3)", "(1, 2) == (1, 2)", Ty::Bool),
        ("(1, \"a\") < (1, 2)", "(1, \"a\") < (1, \"b\")", Ty::Bool),
        ("(1, 2) - (1.0, 2)", "(1, 2) - (3, 4)", ii.clone()),
        ("(1, 2) * (1, 2, 3)", "(1, 2) * (3, 4)", ii.clone()),
        ("(1, true) + (1, true)", "(1 + 2, not false)", ib),
        ("(1, 2) != (1, \"a\")", "(1, 2) != (1, 3)", Ty::Bool),
        ("(1, 2) + 1", "(1, 2) + (1, 1)", ii),
        ("(1.0, 2) > (1.0, \"b\")", "(1.0, 2) > (1.0, 3)", Ty::Bool),
    ]
}

/// Build one spelling of `kind`. `want` = the nominal type the expression must have (expression sites);
/// `None` = statement level (any form). Returns None when the kind has no spelling for this site.
pub fn make(kind: &'static str, want: Option<&Ty>, env: &Env, s: &mut Sel) -> Option<Plant> {
    let want_p = match want {
        Some(t) => match P::of(t) {
            Some(p) => Some(p),
            None => None,
        },
        None => None,
    };
    // a primitive result type: the wanted one, or a free choice at statement level
    let prim_result = |s: &mut Sel, allowed: &[P]| -> Option<P> {
        match want {
            Some(_) => want_p.filter(|p| allowed.contains(p)),
            None => Some(*s.pick(allowed)),
        }
    };
    let k = s.byte();
    match kind {
        "op-add" | "op-sub" | "op-mul" => {
            let a = prim_result(s, &PRIMS)?;
            let op = match kind {
                "op-add" => "+",
                "op-sub" => "-",
                _ => "*",
            };
            let same_illegal = match kind {
                "op-add" => a == P::Bool,
                _ => a == P::Bool || a == P::Str,
            };
            let b = if same_illegal && s.chance(1, 3) { a } else { a.other(s) };
            Some(plant(kind, format!("{} {} {}", a.lit(k), op, b.lit(k / 4)), a.twin(k).to_string(), Form::Expr(Some(a.ty()))))
        }
        "op-div" => {
            let _ = prim_result(s, &[P::Float])?;
            let bads = [P::Str, P::Bool];
            let (a, b) = match s.below(3) {
                0 => (*s.pick(&[P::Int, P::Float]), *s.pick(&bads)),
                1 => (*s.pick(&bads), *s.pick(&[P::Int, P::Float])),
                _ => (*s.pick(&bads), *s.pick(&bads)),
            };
            Some(plant(kind, format!("{} / {}", a.lit(k), b.lit(k / 4)), P::Float.twin(k).to_string(), Form::Expr(Some(Ty::Float))))
        }
        "op-eq" => {
            let _ = prim_result(s, &[P::Bool])?;
            let a = *s.pick(&PRIMS);
            let b = a.other(s);
            let op = *s.pick(&["==", "!=", "<=>"]);
            Some(plant(kind, format!("{} {} {}", a.lit(k), op, b.lit(k / 4)), P::Bool.twin(k).to_string(), Form::Expr(Some(Ty::Bool))))
        }
        "op-cmp" => {
            let _ = prim_result(s, &[P::Bool])?;
            let mut pairs = Vec::new();
            for a in PRIMS {
                for b in PRIMS {
                    if !cmp_legal(a, b) {
                        pairs.push((a, b));
                    }
                }
            }
            let (a, b) = *s.pick(&pairs);
            let op = *s.pick(&["<", ">", "<=", ">="]);
            Some(plant(kind, format!("{} {} {}", a.lit(k), op, b.lit(k / 4)), P::Bool.twin(k).to_string(), Form::Expr(Some(Ty::Bool))))
        }
        "op-not" => {
            let _ = prim_result(s, &[P::Bool])?;
            let a = P::Bool.other(s);
            Some(plant(kind, format!("not {}", a.lit(k)), P::Bool.twin(k).to_string(), Form::Expr(Some(Ty::Bool))))
        }
        "op-and-or" => {
            let _ = prim_result(s, &[P::Bool])?;
            let nb = P::Bool.other(s);
            let (a, b) = match s.below(3) {
                0 => (nb, P::Bool),
                1 => (P::Bool, nb),
                _ => (nb, P::Bool.other(s)),
            };
            let op = *s.pick(&["and", "or"]);
            Some(plant(kind, format!("{} {} {}", a.lit(k), op, b.lit(k / 4)), P::Bool.twin(k).to_string(), Form::Expr(Some(Ty::Bool))))
        }
        "neg-non-number" => {
            // statement level also: unary minus on a tuple (no rule gives it a type, whatever the elements are)
            if want.is_none() && s.below(3) == 0 {
                let a = *s.pick(&[P::Str, P::Bool, P::Int, P::Float]);
                let tup = format!("({}, {})", a.lit(k), P::Int.lit(k / 4));
                let ty = Ty::Tuple(vec![a.ty(), Ty::Int]);
                return Some(plant(kind, format!("-{}", tup), tup, Form::Expr(Some(ty))));
            }
            let a = prim_result(s, &[P::Str, P::Bool])?;
            Some(plant(kind, format!("-{}", a.lit(k)), a.twin(k).to_string(), Form::Expr(Some(a.ty()))))
        }
        "tuple-op" => {
            let all = tuple_spellings();
            let fit: Vec<_> = all.into_iter().filter(|(_, _, t)| want.map(|w| w == t).unwrap_or(true)).collect();
            if fit.is_empty() {
                return None;
            }
            let (b, g, t) = s.pick(&fit).clone();
            Some(plant(kind, b.to_string(), g.to_string(), Form::Expr(Some(t))))
        }
        "list-hetero" => {
            let a = match want {
                Some(Ty::List(inner)) => P::of(inner)?,
                Some(_) => return None,
                None => *s.pick(&PRIMS),
            };
            let b = a.other(s);
            let good = format!("[{}, {}]", a.lit(k), a.lit(k + 1));
            let bad = match s.below(4) {
                0 => format!("[{}, {}]", a.lit(k), b.lit(k / 4)),
                1 => format!("[{}, {}, {}]", a.lit(k), a.lit(k + 1), b.lit(k / 4)),
                2 if want.is_none() => {
                    return Some(plant(
                        kind,
                        format!("[[{}], [{}]]", a.lit(k), b.lit(k / 4)),
                        format!("[[{}], [{}]]", a.lit(k), a.lit(k + 1)),
                        Form::Expr(Some(Ty::List(Box::new(Ty::List(Box::new(a.ty())))))),
                    ))
                }
                3 if want.is_none() => {
                    return Some(plant(
                        kind,
                        format!("[({}, {}), ({}, {})]", a.lit(k), a.lit(k), a.lit(k), b.lit(k / 4)),
                        format!("[({}, {}), ({}, {})]", a.lit(k), a.lit(k), a.lit(k), a.lit(k + 1)),
                        Form::Expr(Some(Ty::List(Box::new(Ty::Tuple(vec![a.ty(), a.ty()]))))),
                    ))
                }
                _ => format!("[{}, {}, {}]", a.lit(k), b.lit(k / 4), a.lit(k + 1)),
            };
            Some(plant(kind, bad, good, Form::Expr(Some(Ty::List(Box::new(a.ty()))))))
        }
        "call-too-few" | "call-too-many" | "call-arg-type" => {
            let args = match kind {
                "call-too-few" => *s.pick(TOO_FEW),
                "call-too-many" => *s.pick(TOO_MANY),
                _ => *s.pick(ARG_TYPE),
            };
            let local = want.is_none() && env.stmts && s.chance(1, 2);
            if local {
                // local annotated function + the call as an unused statement / initialiser
                let kw = if env.pure_ { "pu" } else { *s.pick(&["fn", "pu"]) };
                let head = format!("zq1 :: {} a: int, b: str -> int do a end", kw);
                let (pre, post) = match s.below(3) {
                    0 => ("", ""),
                    1 => ("zq2 :: ", ""),
                    _ => ("zq2 :: 1 + ", ""),
                };
                Some(plant(
                    kind,
                    format!("{}\n{}zq1({}){}", head, pre, args, post),
                    format!("{}\n{}zq1(1, \"s\"){}", head, pre, post),
                    Form::Stmt,
                ))
            } else {
                let r = prim_result(s, &PRIMS)?;
                let f = gfn_name(r);
                // call forms: f(a, b) / a -> f(b)
                let (bad, good) = if s.chance(1, 4) && !args.is_empty() && kind != "call-too-few" {
                    let (first, rest) = match args.find(", ") {
                        Some(i) => (&args[..i], &args[i + 2..]),
                        None => (args, ""),
                    };
                    (format!("{} -> {}({})", first, f, rest), format!("1 -> {}(\"s\")", f))
                } else {
                    (format!("{}({})", f, args), format!("{}(1, \"s\")", f))
                };
                Some(plant(kind, bad, good, Form::Expr(Some(r.ty()))))
            }
        }
        "param-annot" => {
            if want.is_some() {
                return None;
            }
            let a = *s.pick(&PRIMS);
            let b = a.other(s);
            let kw = if env.pure_ { "pu" } else { *s.pick(&["fn", "pu"]) };
            if s.chance(1, 2) || !env.stmts {
                // immediately applied literal
                let f = |v: &str| format!("({} zqp: {} -> {} do zqp end)({})", kw, a.name(), a.name(), v);
                Some(plant(kind, f(b.lit(k)), f(a.lit(k)), Form::Expr(None)))
            } else {
                let head = format!("zq1 :: {} zqp: {} do\nend", kw, a.name());
                Some(plant(kind, format!("{}\nzq1({})", head, b.lit(k)), format!("{}\nzq1({})", head, a.lit(k)), Form::Stmt))
            }
        }
        "var-annot" => {
            if want.is_some() || !env.stmts {
                return None;
            }
            let sep = if env.pure_ || s.chance(1, 2) { ":" } else { "=" };
            let (ty, bad, good): (String, String, String) = match s.below(8) {
                0 => ("[int]".into(), "[\"a\"]".into(), "[1]".into()),
                1 => ("(int, str)".into(), "(1, 2)".into(), "(1, \"a\")".into()),
                2 => ("(int, int)".into(), "(1, 2, 3)".into(), "(1, 2)".into()),
                _ => {
                    let a = *s.pick(&PRIMS);
                    let b = a.other(s);
                    (a.name().into(), b.lit(k).into(), a.lit(k).into())
                }
            };
            Some(plant(kind, format!("zq1: {} {} {}", ty, sep, bad), format!("zq1: {} {} {}", ty, sep, good), Form::Stmt))
        }
        "ret-annot-implicit" | "ret-annot-explicit" => {
            if want.is_some() {
                return None;
            }
            let a = *s.pick(&PRIMS);
            let b = a.other(s);
            let kw = if env.pure_ { "pu" } else { *s.pick(&["fn", "pu"]) };
            let body = |v: &str| -> String {
                if kind == "ret-annot-implicit" {
                    format!("{} -> {} do {} end", kw, a.name(), v)
                } else {
                    format!("{} -> {} do ret {} end", kw, a.name(), v)
                }
            };
            if env.stmts && s.chance(2, 3) {
                Some(plant(kind, format!("zq1 :: {}", body(b.lit(k))), format!("zq1 :: {}", body(a.lit(k))), Form::Stmt))
            } else {
                Some(plant(kind, format!("({})", body(b.lit(k))), format!("({})", body(a.lit(k))), Form::Expr(None)))
            }
        }
        "ret-in-block" | "ret-in-if" => {
            // a `ret` of the wrong type nested in a block of a planted function with an annotated return type
            if want.is_some() || !env.stmts {
                return None;
            }
            let a = *s.pick(&PRIMS);
            let b = a.other(s);
            let kw = if env.pure_ { "pu" } else { *s.pick(&["fn", "pu"]) };
            let v = s.below(3);
            let f = |x: &str| -> String {
                let inner = if kind == "ret-in-if" {
                    // an `if` without `else`
                    match v {
                        0 => format!("if true do\nret {}\nend", x),
                        1 => format!("if false do\nzq2 :: 1\nelif true do\nret {}\nend", x),
                        _ => format!("if true do\nloop true do\nret {}\nend\nend", x),
                    }
                } else {
                    match v {
                        0 => format!("if true do\nret {}\nelse\nret {}\nend", x, a.lit(k + 2)),
                        1 => format!("loop true do\nret {}\nend", x),
                        _ => format!("do\nret {}\nend", x),
                    }
                };
                format!("zq1 :: {} -> {} do\n{}\n{}\nend", kw, a.name(), inner, a.lit(k + 1))
            };
            Some(plant(kind, f(b.lit(k)), f(a.lit(k)), Form::Stmt))
        }
        "ret-enclosing" => {
            if want.is_some() || !env.stmts {
                return None;
            }
            let a = env.ret?;
            let b = a.other(s);
            Some(plant(kind, format!("ret {}", b.lit(k)), format!("ret {}", a.lit(k)), Form::Stmt))
        }
        "field-init" => {
            if want.is_some() {
                return None;
            }
            let (bad, good) = if s.chance(1, 2) {
                let b = P::Int.other(s);
                (format!("Zqb {{ zf: {}, zg: \"t\" }}", b.lit(k)), "Zqb { zf: 1, zg: \"t\" }".to_string())
            } else {
                let b = P::Str.other(s);
                (format!("Zqb {{ zf: 1, zg: {} }}", b.lit(k)), "Zqb { zf: 1, zg: \"t\" }".to_string())
            };
            Some(plant(kind, bad, good, Form::Expr(None)))
        }
        "field-assign" => {
            if want.is_some() || !env.stmts || env.pure_ {
                return None;
            }
            let head = "zq1 := Zqb { zf: 1, zg: \"t\" }";
            let (f, a) = if s.chance(1, 2) { ("zf", P::Int) } else { ("zg", P::Str) };
            let b = a.other(s);
            Some(plant(
                kind,
                format!("{}\nzq1.{} = {}", head, f, b.lit(k)),
                format!("{}\nzq1.{} = {}", head, f, a.lit(k + 1)),
                Form::Stmt,
            ))
        }
        "assign" => {
            if want.is_some() || !env.stmts || env.pure_ {
                return None;
            }
            let a = *s.pick(&PRIMS);
            let b = a.other(s);
            let op = if matches!(a, P::Int | P::Float) && s.chance(1, 3) { *s.pick(&["+=", "-=", "*="]) } else { "=" };
            let head = format!("zq1: {} = {}", a.name(), a.lit(k));
            Some(plant(kind, format!("{}\nzq1 {} {}", head, op, b.lit(k)), format!("{}\nzq1 {} {}", head, op, a.lit(k + 1)), Form::Stmt))
        }
        "if-cond" => {
            let b = P::Bool.other(s);
            if let Some(w) = want {
                // if-expression with a non-bool condition, value of the wanted primitive type
                let a = P::of(w)?;
                return Some(plant(
                    kind,
                    format!("if {} do {} else {} end", b.lit(k), a.lit(k), a.lit(k + 1)),
                    format!("if true do {} else {} end", a.lit(k), a.lit(k + 1)),
                    Form::Expr(Some(a.ty())),
                ));
            }
            if !env.stmts {
                return None;
            }
            let f = |c: &str| match k % 3 {
                0 => format!("if {} do\nend", c),
                1 => format!("if {} do\nzq1 :: 1\nelse\nzq1 :: 2\nend", c),
                _ => format!("if {} do\nzq1 :: 1\nend", c),
            };
            Some(plant(kind, f(b.lit(k)), f("true"), Form::Stmt))
        }
        "elif-cond" => {
            if want.is_some() || !env.stmts {
                return None;
            }
            let b = P::Bool.other(s);
            let f = |c: &str| match k % 2 {
                0 => format!("if false do\nelif {} do\nend", c),
                _ => format!("if false do\nzq1 :: 1\nelif true do\nzq1 :: 2\nelif {} do\nzq1 :: 3\nelse\nzq1 :: 4\nend", c),
            };
            Some(plant(kind, f(b.lit(k)), f("false"), Form::Stmt))
        }
        "loop-cond" => {
            if want.is_some() || !env.stmts {
                return None;
            }
            let b = P::Bool.other(s);
            let f = |c: &str| format!("loop {} do\nbreak\nend", c);
            Some(plant(kind, f(b.lit(k)), f("true"), Form::Stmt))
        }
        "cond-literal" => {
            // only meaningful where the context demands bool: the caller offers it at Condition sites only
            None
        }
        "call-non-fn" => {
            if want.is_some() {
                return None;
            }
            let good = "(pu -> int do 1 end)()".to_string();
            let n = if env.stmts { 9 } else { 6 };
            match s.below(n) {
                0 => Some(plant(kind, "5()".into(), good, Form::Expr(None))),
                1 => Some(plant(kind, "\"s\"(1)".into(), "(pu zqp: int -> int do zqp end)(1)".into(), Form::Expr(None))),
                2 => Some(plant(kind, "true()".into(), good, Form::Expr(None))),
                3 => Some(plant(kind, "1.5(2)".into(), "(pu zqp: int -> int do zqp end)(2)".into(), Form::Expr(None))),
                4 => Some(plant(kind, "(1, 2)()".into(), good, Form::Expr(None))),
                5 => Some(plant(kind, "[1]()".into(), good, Form::Expr(None))),
                6 => Some(plant(kind, "zq1: int : 1\nzq1()".into(), "zq1 :: pu -> int do 1 end\nzq1()".into(), Form::Stmt)),
                7 => Some(plant(kind, "zq1 :: \"s\"\nzq1(1)".into(), "zq1 :: pu zqp: int -> int do zqp end\nzq1(1)".into(), Form::Stmt)),
                _ => Some(plant(kind, "zq1: str : \"s\"\nzq2 :: zq1()".into(), "zq1 :: pu -> str do \"s\" end\nzq2 :: zq1()".into(), Form::Stmt)),
            }
        }
        "void-store" => {
            if want.is_some() || !env.stmts {
                return None;
            }
            // (pure contexts use the first four spellings only)
            let n = if env.pure_ { 4 } else { 11 };
            match s.below(n) {
                // declared types that themselves unify with void: `void`, the wildcard `*`, a generic `*T`
                2 => Some(plant(
                    kind,
                    "zq2 :: pu do\nend\nzq1: void : zq2()".into(),
                    "zq2 :: pu -> int do\n1\nend\nzq1: int : zq2()".into(),
                    Form::Stmt,
                )),
                3 => Some(plant(
                    kind,
                    "zq2 :: pu do\nend\nzq1: * : zq2()".into(),
                    "zq2 :: pu -> int do\n1\nend\nzq1: * : zq2()".into(),
                    Form::Stmt,
                )),
                8 => Some(plant(kind, "zq1: void = print(1)".into(), "zq1: str = as_str(1)".into(), Form::Stmt)),
                9 => Some(plant(kind, "zq1: * = print(1)\nzq2 := [zq1, zq1]".into(), "zq1: * = as_str(1)\nzq2 := [zq1, zq1]".into(), Form::Stmt)),
                10 => Some(plant(
                    kind,
                    "zq2 :: fn do\nend\nzq1: *ZqT = zq2()".into(),
                    "zq2 :: fn -> int do\n1\nend\nzq1: *ZqT = zq2()".into(),
                    Form::Stmt,
                )),
                0 => Some(plant(
                    kind,
                    "zq2 :: pu do\nend\nzq1 :: zq2()".into(),
                    "zq2 :: pu -> int do\n1\nend\nzq1 :: zq2()".into(),
                    Form::Stmt,
                )),
                1 => Some(plant(
                    kind,
                    "zq2 :: pu zqp: int do\nend\nzq1: int : zq2(1)".into(),
                    "zq2 :: pu zqp: int -> int do\nzqp\nend\nzq1: int : zq2(1)".into(),
                    Form::Stmt,
                )),
                4 => Some(plant(kind, "zq1 := print(1)".into(), "zq1 := as_str(1)".into(), Form::Stmt)),
                5 => Some(plant(kind, "zq1 :: print(\"s\")".into(), "zq1 :: as_str(\"s\")".into(), Form::Stmt)),
                6 => Some(plant(
                    kind,
                    "zq2 :: fn do\nend\nzq1 := zq2()".into(),
                    "zq2 :: fn -> int do\n1\nend\nzq1 := zq2()".into(),
                    Form::Stmt,
                )),
                _ => Some(plant(kind, "zq1 := 1\nzq1 = print(1)".into(), "zq1 := 1\nzq1 = 2".into(), Form::Stmt)),
            }
        }
        "generic" => {
            // the same type variable instantiated with two different types (own annotated functions and the standard
            // library's generic signatures); (bad, good, needs an impure context)
            if want.is_some() || !env.stmts {
                return None;
            }
            const G: &[(&str, &str, bool)] = &[
                ("zq1 :: pu p: (*a, *a) -> *a do p[0] end\nzq2 :: zq1((1, \"s\"))", "zq1 :: pu p: (*a, *a) -> *a do p[0] end\nzq2 :: zq1((1, 2))", false),
                ("zq1 :: pu a: *t, b: *t -> *t do a end\nzq2 :: zq1(1, \"s\")", "zq1 :: pu a: *t, b: *t -> *t do a end\nzq2 :: zq1(1, 2)", false),
                ("zq1 :: pu a: *t, b: [*t] -> *t do a end\nzq2 :: zq1(1, [\"s\"])", "zq1 :: pu a: *t, b: [*t] -> *t do a end\nzq2 :: zq1(1, [2])", false),
                ("zq1 :: pu a: [*t], b: (*t, int) -> int do 1 end\nzq2 :: zq1([1], (\"s\", 1))", "zq1 :: pu a: [*t], b: (*t, int) -> int do 1 end\nzq2 :: zq1([1], (2, 1))", false),
                ("zq1 :: pu a: *t -> *t do a end\nzq2: str : zq1(1)", "zq1 :: pu a: *t -> *t do a end\nzq2: int : zq1(1)", false),
                ("zq1 :: pu a: (*t, *u) -> *u do a[1] end\nzq2: int : zq1((1, \"s\"))", "zq1 :: pu a: (*t, *u) -> *u do a[1] end\nzq2: str : zq1((1, \"s\"))", false),
                ("zq2: dict.Dict(str, int) : dict.from_list([(\"a\", \"b\")])", "zq2: dict.Dict(str, int) : dict.from_list([(\"a\", 1)])", false),
                ("list.push([1], \"s\")", "list.push([1], 2)", true),
                ("zq2: [int] : map([1], pu x: int -> str do \"a\" end)", "zq2: [int] : map([1], pu x: int -> int do 1 end)", false),
                ("zq2 :: fold([1], \"s\", pu x: int, a: int -> int do a end)", "zq2 :: fold([1], 0, pu x: int, a: int -> int do a end)", false),
                ("zq2: Maybe(int) : Maybe.Just \"s\"", "zq2: Maybe(int) : Maybe.Just 1", false),
                ("zq1 :: pu a: Maybe(*t), b: *t -> *t do b end\nzq2 :: zq1(Maybe.Just 1, \"s\")", "zq1 :: pu a: Maybe(*t), b: *t -> *t do b end\nzq2 :: zq1(Maybe.Just 1, 2)", false),
                (
                    "zq1 :: pu f: (pu *t -> *t), a: *t -> *t do f(a) end\nzq2 :: zq1(pu x: int -> int do x end, \"s\")",
                    "zq1 :: pu f: (pu *t -> *t), a: *t -> *t do f(a) end\nzq2 :: zq1(pu x: int -> int do x end, 2)",
                    false,
                ),
                ("zq2: dict.Dict(int, int) : dict.new()\ndict.update(zq2, \"k\", 1)", "zq2: dict.Dict(int, int) : dict.new()\ndict.update(zq2, 1, 1)", true),
                ("zq2: set.Set(int) : set.from_list([\"a\"])", "zq2: set.Set(int) : set.from_list([1])", false),
                ("zq2: [(int, str)] : [(1, \"a\"), (2, 3)]", "zq2: [(int, str)] : [(1, \"a\"), (2, \"b\")]", false),
                // unannotated callees: the requirement on the parameter comes from an operator in the body (parameter as the
                // right and as the left operand)
                ("zq1 :: pu zqa -> do ret 2 * zqa end\nzq2 :: zq1(\"s\")", "zq1 :: pu zqa -> do ret 2 * zqa end\nzq2 :: zq1(3)", false),
                ("zq1 :: pu zqa -> do ret zqa * 2 end\nzq2 :: zq1(\"s\")", "zq1 :: pu zqa -> do ret zqa * 2 end\nzq2 :: zq1(3)", false),
                ("zq1 :: pu zqa -> bool do 0 < zqa end\nzq2 :: zq1(\"s\")", "zq1 :: pu zqa -> bool do 0 < zqa end\nzq2 :: zq1(3)", false),
                ("zq1 :: pu zqa -> bool do zqa < 0 end\nzq2 :: zq1(true)", "zq1 :: pu zqa -> bool do zqa < 0 end\nzq2 :: zq1(3)", false),
                ("zq1 :: pu zqa, zqb -> do ret zqa - zqb end\nzq2 :: zq1(1, \"s\")", "zq1 :: pu zqa, zqb -> do ret zqa - zqb end\nzq2 :: zq1(1, 2)", false),
                ("zq1 :: pu zqa, zqb -> int do\n    zqc :: zqa + zqb\n    1\nend\nzq2 :: zq1(1, \"s\")", "zq1 :: pu zqa, zqb -> int do\n    zqc :: zqa + zqb\n    1\nend\nzq2 :: zq1(1, 2)", false),
                ("zq1 :: pu zqa -> do ret 1.5 - zqa end\nzq2 :: zq1(\"s\")", "zq1 :: pu zqa -> do ret 1.5 - zqa end\nzq2 :: zq1(0.5)", false),
                // members whose declared type is a blob declared further down (`Zqo` above `Zqp`, see add_helpers)
                ("zq1 :: Zqo { zi: Maybe.Just \"s\" }", "zq1 :: Zqo { zi: Maybe.Just (Zqp { zx: 1 }) }", false),
                ("zq1 :: Zqo { zi: Maybe.Just 1 }", "zq1 :: Zqo { zi: Maybe.None }", false),
                ("zq1 :: Zqo { zi: Maybe.Just (Zqp { zx: \"s\" }) }", "zq1 :: Zqo { zi: Maybe.Just (Zqp { zx: 2 }) }", false),
                ("zq1 :: Zqd { zd: 3 }", "zq1 :: Zqd { zd: Zqp { zx: 3 } }", false),
                ("zq1 :: Zqd { zd: Zqp { zx: \"s\" } }", "zq1 :: Zqd { zd: Zqp { zx: 2 } }", false),
            ];
            let usable: Vec<&(&str, &str, bool)> = G.iter().filter(|g| !(g.2 && env.pure_)).collect();
            let g = *s.pick(&usable);
            Some(plant(kind, g.0.to_string(), g.1.to_string(), Form::Stmt))
        }
        "blob-type" => {
            // two blob types of which one has all the fields of the other and one more (`Zqs { zf }`, `Zqb { zf, zg }`, see
            // add_helpers), met in both directions: declared richer / given poorer and the other way round
            if want.is_some() || !env.stmts {
                return None;
            }
            const B: &str = "Zqb { zf: 1, zg: \"s\" }";
            const S: &str = "Zqs { zf: 2 }";
            let pairs: Vec<(String, String, bool)> = vec![
                (format!("zq1: Zqb : {}", S), format!("zq1: Zqb : {}", B), false),
                (format!("zq1: Zqs : {}", B), format!("zq1: Zqs : {}", S), false),
                (format!("zq1: Zqb = {}", S), format!("zq1: Zqb = {}", B), true),
                (format!("zq2 :: pu zqp: Zqb -> int do\n    1\nend\nzq1 :: zq2({})", S), format!("zq2 :: pu zqp: Zqb -> int do\n    1\nend\nzq1 :: zq2({})", B), false),
                (format!("zq2 :: pu zqp: Zqs -> int do\n    1\nend\nzq1 :: zq2({})", B), format!("zq2 :: pu zqp: Zqs -> int do\n    1\nend\nzq1 :: zq2({})", S), false),
                (format!("zq2 :: pu zqp: Zqb -> int do\n    zqp.zf\nend\nzq1 :: zq2({})", S), format!("zq2 :: pu zqp: Zqb -> int do\n    zqp.zf\nend\nzq1 :: zq2({})", B), false),
                (format!("zq1 :: [{}, {}]", B, S), format!("zq1 :: [{}, {}]", B, B), false),
                (format!("zq1 :: [{}, {}]", S, B), format!("zq1 :: [{}, {}]", S, S), false),
                (format!("zq2 :: pu -> Zqb do\n    {}\nend", S), format!("zq2 :: pu -> Zqb do\n    {}\nend", B), false),
                (format!("zq2 :: pu -> Zqs do\n    {}\nend", B), format!("zq2 :: pu -> Zqs do\n    {}\nend", S), false),
                (format!("zq1 :: if true do\n    {}\nelse\n    {}\nend", B, S), format!("zq1 :: if true do\n    {}\nelse\n    {}\nend", B, B), false),
                (format!("zq1 := {}\nzq1 = {}", B, S), format!("zq1 := {}\nzq1 = {}", B, B), true),
                (format!("zq1 := {}\nzq1 = {}", S, B), format!("zq1 := {}\nzq1 = {}", S, S), true),
                (format!("zq1 :: ({}, 1) == ({}, 1)", B, S), format!("zq1 :: ({}, 1) == ({}, 1)", B, B), false),
                ("zq1 :: dict.len(set.from_list([1, 2]))".to_string(), "zq1 :: set.len(set.from_list([1, 2]))".to_string(), true),
                ("zq1: dict.Dict(int, int) : set.from_list([1, 2])".to_string(), "zq1: set.Set(int) : set.from_list([1, 2])".to_string(), true),
            ];
            let usable: Vec<&(String, String, bool)> = pairs.iter().filter(|g| !(g.2 && env.pure_)).collect();
            let g = *s.pick(&usable);
            Some(plant(kind, g.0.clone(), g.1.clone(), Form::Stmt))
        }
        _ => None,
    }
}

/// literal of a non-bool type for a condition that must be bool
pub fn cond_literal(s: &mut Sel) -> Plant {
    let b = P::Bool.other(s);
    let k = s.byte();
    plant("cond-literal", b.lit(k).to_string(), P::Bool.lit(k).to_string(), Form::Expr(Some(Ty::Bool)))
}

/// ways to put an expression plant into statement position: (name, needs impure context)
pub const WRAPPERS: &[(&str, bool)] = &[
    ("unused-expression", false),
    ("def-const", false),
    ("paren-unused", false),
    ("tuple-element", false),
    ("list-element", false),
    ("closure-unused", false),
    ("def-mut", true),
    ("print-arg", true),
];

pub fn wrap(w: &str, e: &str, pure_: bool) -> String {
    match w {
        "unused-expression" => e.to_string(),
        "paren-unused" => format!("({})", e),
        "def-const" => format!("zq9 :: {}", e),
        "def-mut" => format!("zq9 := {}", e),
        "tuple-element" => format!("zq9 :: ({}, 1)", e),
        "list-element" => format!("zq9 :: [{}]", e),
        "print-arg" => format!("print({})", e),
        "closure-unused" => format!("zq9 :: {} do\n{}\nend", if pure_ { "pu" } else { "fn" }, e),
        _ => e.to_string(),
    }
}

/// expression-only wrappers (global initialisers)
pub fn wrap_expr(w: &str, e: &str) -> String {
    match w {
        "tuple-element" => format!("({}, 1)", e),
        "list-element" => format!("[{}]", e),
        _ => e.to_string(),
    }
}

/// how the value of the planted expression is consumed, as it appears in violation signatures
pub fn use_class(w: &str) -> &'static str {
    match w {
        "unused-expression" | "paren-unused" | "closure-unused" => "unused-expression",
        "tuple-element" => "tuple-element",
        "list-element" => "list-element",
        "def-const" | "def-mut" => "definition",
        "print-arg" => "argument",
        _ => "statement",
    }
}
