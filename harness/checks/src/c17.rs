//! C17 — tokenizer: tokens tile the source and carry exact positions.
//!
//! Oracle (see `c17_ref.rs`): an independent maximal-munch reference lexer over the documented token set
//! plus an independent line index. Cases: (a) every string up to a length bound over a 23-symbol alphabet
//! and every short sequence of token-class fragments (`extra_phase`, exhaustive), (b) tape-driven random
//! concatenations of token-class fragments.
use arbitrary::Unstructured;
use serde::{Deserialize, Serialize};
use serde_json::json;
use std::collections::BTreeMap;
use vcore::{hash64, Check, Found, Labels, RunCfg, Stats, Step, Tape, Tier, Verdict};

#[path = "c17_ref.rs"]
mod reflex;
use reflex::{judge, Judged, RefLexer, Want, FLAG_NAMES};

pub struct C17;
pub const CHECK: C17 = C17;
pub fn plan(t: Tier) -> vcore::Plan {
    vcore::Plan::new(t.pick(300_000, 5_000_000), t.pick(128, 192))
}

#[derive(Clone, Serialize, Deserialize)]
pub struct Case {
    pub src: String,
    /// how the text was produced (information only; the oracle looks at `src` alone)
    #[serde(default)]
    pub origin: String,
}

// ------------------------------------------------------------------------------------------------
// fragments
// ------------------------------------------------------------------------------------------------

const WORDS: &[&str] = &[
    "a", "i", "if", "iff", "elif", "eli", "elif_", "else", "els", "elsee", "externblob", "externblo", "externblobs", "external",
    "externa", "externals", "blob", "blo", "blobb", "nil", "ni", "nill", "true", "tru", "truee", "false", "fals", "falsee", "int",
    "in", "inn", "is", "iss", "do", "d", "doo", "end", "en", "endd", "fn", "f", "fnn", "pu", "p", "pub", "and", "an", "andd", "or",
    "o", "orr", "not", "no", "nott", "use", "us", "used", "from", "fro", "fromm", "as", "ass", "ret", "re", "rett", "loop", "loo",
    "loops", "break", "brea", "breaks", "continue", "continu", "continued", "case", "cas", "cases", "enum", "enu", "enums", "void",
    "voi", "voidd", "bool", "boo", "bools", "float", "floa", "floats", "str", "st", "strr", "x1", "_", "__", "a_b", "A", "Zz9", "e",
    "e3", "If", "NIL", "true1", "nil_", "_if",
];
const NUMBERS: &[&str] = &[
    "0", "1", "42", "007", "1.", "0.", ".1", ".5", "1.5", "1e5", "1e+", "1e-", "1e-3", "1e+5", "1e", "1..2", "1.e3", "1.5e3",
    "1e5e5", "1.2.3", "..", "1e5.", ".5.", "99999999999999999999", "9223372036854775807", "9223372036854775808", "1e999",
    "0.000000000000000000001", "123456789012345678901234567890.5", "\u{663}", "1\u{663}", "\u{ff15}", "1.\u{663}", "\u{663}.5",
    "1e\u{966}", "1a", "1_", "1if",
];
const STRINGS: &[&str] = &[
    "\"\"", "\"a\"", "\"a b\"", "\"\u{f6}\"", "\"\u{5b57}\"", "\"\u{1f600}\"", "\"// no comment\"", "\"1.5\"", "\"'\"", "\"\t\"",
    "\"if\"", "\"<=>\"", "\"\\\"", "\"a\nb\"", "\"\n\"", "\"x\n\ny\"", "\"\r\n\"", "\"\u{f6}\n\u{5b57}\"", "\"", "\"abc",
];
const COMMENTS: &[&str] = &[
    "//", "// c", "///", "//a//b", "// \u{f6}\u{5b57}", "//\t x \t", "// \"q", "// c\n", "//\n", "// x\r\n", "/", "/=", "/ /", "//\u{a0}c\u{a0}",
    "// 1.5 if <=>",
];
const OPERATORS: &[&str] = &[
    "<", "<=", "<=>", "<!", "<!>", "<<<<<<<", "<<<<<<", "<<<<<<<<", ">>>>>>>", ">>>>>>", ">>>>>>>>", "-", "->", "-=", "-->", ":", "::",
    ":=", ":::", "::=", "=", "==", "===", "=>", "!=", "!", "!!", "!==", "+", "+=", "++", "*", "*=", "**", "#", "(", ")", "[", "]", "{",
    "}", "?", "|", "'", ",", ".", ">", ">=", ">=>", "<>", "<=<", "<!=",
];
const SPACES: &[&str] = &[" ", "  ", "\t", "\r", "\r\n", "\n", "\n\n", " \n ", "\t\n\t", "\r\r\n"];
const OTHER: &[&str] = &[
    "\u{f6}", "\u{5b57}", "\u{1f600}", "e\u{301}", "\u{a0}", "\u{2028}", "\u{1}", "\u{7f}", "@", "$", "\\", "`", "~", "%", "^", "&", ";",
    "\u{b}", "\u{c}", "\u{feff}", "\u{3b1}\u{3b2}", "\u{f6}a", "a\u{f6}",
    // characters whose UTF-8 encoding shares 1, 2 or 3 leading bytes with a non-ASCII decimal digit
    "\u{670}", "\u{6dd}", "\u{964}", "\u{ff01}", "\u{ff5e}", "\u{1d7cd}", "\u{1d7cd}1",
];
const ALPHABET: [char; 23] = [
    'a', 'e', '_', '1', '0', '.', '"', '\'', '\n', ' ', '\t', '\r', '/', '-', '>', '<', '=', ':', '!', '+', '\u{f6}', '\u{5b57}', '\u{ff01}',
];

const CLASSES: &[&[&str]] = &[WORDS, NUMBERS, OPERATORS, SPACES, STRINGS, COMMENTS, OTHER];

fn all_fragments() -> Vec<&'static str> {
    let mut v: Vec<&'static str> = Vec::new();
    for c in CLASSES {
        for f in c.iter() {
            if !v.contains(f) {
                v.push(f);
            }
        }
    }
    for f in reflex::FIXED {
        if !v.contains(f) {
            v.push(f);
        }
    }
    v
}

/// Generator switch for the open finding "`D.` directly before certain non-ASCII characters becomes an
/// error token" (C17/lex/kind/want=Float/got=Error/next=non-ascii): blank the character after such a numeral.
fn avoid_open_findings(src: &str) -> String {
    let chars: Vec<char> = src.chars().collect();
    let lexer = RefLexer { chars: &chars, unicode_digits: true };
    let mut out = chars.clone();
    let mut p = 0;
    while p < chars.len() {
        if reflex::is_skipped(chars[p]) {
            p += 1;
            continue;
        }
        match lexer.at(p) {
            Some(rt) => {
                p += rt.len;
                if matches!(rt.want, Want::Float(_) | Want::BadNumeral) && chars[p - 1] == '.' && p < chars.len() && !chars[p].is_ascii() {
                    out[p] = ' ';
                }
            }
            // nothing matches: an error token of unconstrained extent (one character is what is assumed here;
            // a wrong guess only makes the avoidance less effective)
            None => p += 1,
        }
    }
    out.into_iter().collect()
}

// ------------------------------------------------------------------------------------------------
// exhaustive phase
// ------------------------------------------------------------------------------------------------

const HASH_CAP: usize = 1_500_000;

#[derive(Default)]
struct Acc {
    evaluated: u64,
    passed: u64,
    nontrivial: u64,
    discarded: BTreeMap<String, u64>,
    hashes: Vec<u64>,
    flag_counts: BTreeMap<&'static str, u64>,
    /// signature -> (number of violating inputs, (length, enumeration index) of the kept one, kept one)
    by_sig: BTreeMap<String, (u64, (usize, u64), Found)>,
    samples: Vec<String>,
}

impl Acc {
    fn take(&mut self, src: &str, size: usize, index: u64, origin: &str) {
        let j = judge(src);
        self.evaluated += 1;
        // kept reproduction per signature: shortest, among those one without error tokens, then enumeration order
        let key = (size * 2 + (j.flags & reflex::F_ERROR != 0) as usize, index);
        if let Some(d) = j.discard {
            *self.discarded.entry(d.to_string()).or_default() += 1;
            return;
        }
        for (bit, name) in FLAG_NAMES {
            if j.flags & bit != 0 {
                *self.flag_counts.entry(name).or_default() += 1;
            }
        }
        match j.viol {
            Some(v) => {
                let e = self.by_sig.entry(v.signature.clone());
                let found = || Found {
                    signature: v.signature.clone(),
                    detail: v.detail.clone(),
                    case_json: serde_json::to_value(Case { src: src.to_string(), origin: origin.to_string() }).unwrap_or_default(),
                };
                match e {
                    std::collections::btree_map::Entry::Vacant(x) => {
                        x.insert((1, key, found()));
                    }
                    std::collections::btree_map::Entry::Occupied(mut x) => {
                        let cur = x.get_mut();
                        cur.0 += 1;
                        if key < cur.1 {
                            cur.1 = key;
                            cur.2 = found();
                        }
                    }
                }
            }
            None => {
                self.passed += 1;
                if j.nontrivial() {
                    self.nontrivial += 1;
                    if self.hashes.len() < HASH_CAP {
                        self.hashes.push(hash64(src));
                    }
                    if self.samples.len() < 2 && src.chars().count() >= 4 && self.nontrivial % 977 == 1 {
                        self.samples.push(src.to_string());
                    }
                }
            }
        }
    }
    fn merge(&mut self, o: Acc) {
        self.evaluated += o.evaluated;
        self.passed += o.passed;
        self.nontrivial += o.nontrivial;
        for (k, v) in o.discarded {
            *self.discarded.entry(k).or_default() += v;
        }
        for (k, v) in o.flag_counts {
            *self.flag_counts.entry(k).or_default() += v;
        }
        for h in o.hashes {
            if self.hashes.len() < HASH_CAP {
                self.hashes.push(h);
            }
        }
        for (sig, (cnt, key, f)) in o.by_sig {
            match self.by_sig.get_mut(&sig) {
                None => {
                    self.by_sig.insert(sig, (cnt, key, f));
                }
                Some(cur) => {
                    cur.0 += cnt;
                    if key < cur.1 {
                        cur.1 = key;
                        cur.2 = f;
                    }
                }
            }
        }
        for s in o.samples {
            if self.samples.len() < 4 {
                self.samples.push(s);
            }
        }
    }
}

/// Runs `work(k, n_threads, &mut acc)` on `threads` threads and merges the accumulators in thread order.
fn parallel(threads: usize, work: &(dyn Fn(usize, usize, &mut Acc) + Sync)) -> Acc {
    let mut parts: Vec<Acc> = Vec::new();
    std::thread::scope(|s| {
        let handles: Vec<_> = (0..threads)
            .map(|k| {
                s.spawn(move || {
                    let mut a = Acc::default();
                    work(k, threads, &mut a);
                    a
                })
            })
            .collect();
        for h in handles {
            match h.join() {
                Ok(a) => parts.push(a),
                Err(_) => parts.push(Acc::default()),
            }
        }
    });
    let mut total = Acc::default();
    for p in parts {
        total.merge(p);
    }
    total
}

/// all strings of exactly `len` symbols of ALPHABET
fn enumerate_strings(len: usize, threads: usize) -> Acc {
    let base = ALPHABET.len() as u64;
    let total = base.pow(len as u32);
    parallel(threads, &|k, t, acc| {
        let lo = total * k as u64 / t as u64;
        let hi = total * (k as u64 + 1) / t as u64;
        let mut s = String::with_capacity(len * 3);
        for i in lo..hi {
            s.clear();
            let mut v = i;
            for _ in 0..len {
                s.push(ALPHABET[(v % base) as usize]);
                v /= base;
            }
            acc.take(&s, len, i, "exhaustive-alphabet");
        }
    })
}

/// all concatenations of exactly `len` fragments
fn enumerate_fragments(len: usize, threads: usize) -> Acc {
    let frags = all_fragments();
    let base = frags.len() as u64;
    let total = base.pow(len as u32);
    parallel(threads, &|k, t, acc| {
        let lo = total * k as u64 / t as u64;
        let hi = total * (k as u64 + 1) / t as u64;
        let mut s = String::new();
        for i in lo..hi {
            s.clear();
            let mut v = i;
            for _ in 0..len {
                s.push_str(frags[(v % base) as usize]);
                v /= base;
            }
            acc.take(&s, s.chars().count() + 1000, i, "exhaustive-fragments");
        }
    })
}

// ------------------------------------------------------------------------------------------------
// the check
// ------------------------------------------------------------------------------------------------

impl Check for C17 {
    type Case = Case;
    fn id(&self) -> &'static str {
        "C17"
    }

    fn generate(&self, u: &mut Unstructured, tier: Tier) -> Option<Case> {
        let mut t = Tape::new(u);
        // switch for the open finding: on (= avoid the trigger) for 80 % of the cases
        let free = t.chance(1, 5);
        let n = 1 + t.below(tier.pick(24, 40));
        let mut s = String::new();
        for _ in 0..n {
            match t.weighted(&[22, 12, 20, 8, 10, 8, 8, 12]) {
                0 => s.push_str(*t.pick(WORDS)),
                1 => s.push_str(*t.pick(NUMBERS)),
                2 => s.push_str(*t.pick(OPERATORS)),
                3 => s.push_str(*t.pick(SPACES)),
                4 => s.push_str(*t.pick(STRINGS)),
                5 => s.push_str(*t.pick(COMMENTS)),
                6 => s.push_str(*t.pick(OTHER)),
                _ => {
                    // raw symbols of the enumeration alphabet (strings longer than the exhaustive bound)
                    let k = 1 + t.below(8);
                    for _ in 0..k {
                        s.push(*t.pick(&ALPHABET));
                    }
                }
            }
            match t.weighted(&[6, 3, 1, 1]) {
                0 => {}
                1 => s.push(' '),
                2 => s.push('\n'),
                _ => s.push_str("\r\n"),
            }
        }
        let (src, origin) = if free { (s, "fragments/free") } else { (avoid_open_findings(&s), "fragments/avoid-open-findings") };
        Some(Case { src, origin: origin.to_string() })
    }

    fn evaluate(&self, case: &Case, labels: &mut Labels) -> Verdict {
        if !case.origin.is_empty() {
            labels.add(format!("gen:{}", case.origin));
        }
        let j: Judged = judge(&case.src);
        if let Some(d) = j.discard {
            return Verdict::Discard(d.to_string());
        }
        for (bit, name) in FLAG_NAMES {
            if j.flags & bit != 0 {
                labels.add(format!("has:{}", name));
            }
        }
        labels.add(match j.ntok {
            0..=1 => "tokens:0-1",
            2..=9 => "tokens:2-9",
            10..=39 => "tokens:10-39",
            _ => "tokens:40+",
        });
        match j.viol {
            Some(v) => Verdict::Violation { signature: v.signature, detail: v.detail },
            None => Verdict::Pass { nontrivial: j.nontrivial() },
        }
    }

    fn simplify_at(&self, case: &Case, idx: usize) -> Step<Case> {
        // delete a run of characters (runs of 16, 8, 4, 2, 1), then replace a character by 'a'
        let chars: Vec<char> = case.src.chars().collect();
        let n = chars.len();
        let mut k = idx;
        for size in [16usize, 8, 4, 2, 1] {
            if size > n {
                continue;
            }
            let slots = (n + size - 1) / size;
            if k < slots {
                let st = k * size;
                let en = (st + size).min(n);
                let mut out: String = chars[..st].iter().collect();
                out.extend(chars[en..].iter());
                return Step::Candidate(Case { src: out, origin: case.origin.clone() });
            }
            k -= slots;
        }
        if k < n {
            if chars[k] == 'a' || chars[k] == '\n' || chars[k] == '"' {
                return Step::Skip;
            }
            let mut c2 = chars.clone();
            c2[k] = 'a';
            return Step::Candidate(Case { src: c2.into_iter().collect(), origin: case.origin.clone() });
        }
        Step::End
    }

    fn sample(&self, case: &Case) -> serde_json::Value {
        vcore::truncate_value(json!({"src": case.src, "origin": case.origin}), 2048)
    }

    fn extra_phase(&self, cfg: &RunCfg, stats: &mut Stats) -> Vec<Found> {
        let threads = cfg.workers.max(1);
        let max_len = cfg.tier.pick(5usize, 6usize);
        let max_frags = cfg.tier.pick(2usize, 3usize);
        stats.extra.insert("random_phase_evaluations".into(), json!(stats.evaluations));
        let mut total = Acc::default();
        let mut per_len = serde_json::Map::new();
        for len in 0..=max_len {
            let a = enumerate_strings(len, threads);
            per_len.insert(format!("alphabet-length-{}", len), json!(a.evaluated));
            total.merge(a);
        }
        let alphabet_total = total.evaluated;
        for len in 1..=max_frags {
            let a = enumerate_fragments(len, threads);
            per_len.insert(format!("fragment-sequences-of-{}", len), json!(a.evaluated));
            total.merge(a);
        }
        stats.evaluations += total.evaluated;
        stats.passed += total.passed;
        stats.nontrivial += total.nontrivial;
        for h in &total.hashes {
            stats.distinct_nontrivial.insert(*h);
        }
        for (k, v) in &total.discarded {
            *stats.discards.entry(k.clone()).or_default() += v;
        }
        for s in &total.samples {
            if stats.samples.len() < 5 {
                stats.samples.push(json!({"src": s, "origin": "exhaustive"}));
            }
        }
        let alphabet: String = ALPHABET.iter().collect();
        stats.extra.insert("exhaustive".into(), json!(true));
        stats.extra.insert(
            "exhaustive_bound".into(),
            json!(format!(
                "every string of length 0..={} over the {} symbols {:?} ({} strings), and every concatenation of 1..={} of the {} token-class fragments ({} texts)",
                max_len,
                ALPHABET.len(),
                alphabet,
                alphabet_total,
                max_frags,
                all_fragments().len(),
                total.evaluated - alphabet_total
            )),
        );
        stats.extra.insert("exhaustive_max_length".into(), json!(max_len));
        stats.extra.insert("exhaustive_alphabet".into(), json!(alphabet));
        stats.extra.insert("exhaustive_evaluated".into(), json!(total.evaluated));
        stats.extra.insert("exhaustive_evaluated_by_family".into(), serde_json::Value::Object(per_len));
        stats.extra.insert("exhaustive_passed".into(), json!(total.passed));
        stats.extra.insert("exhaustive_nontrivial".into(), json!(total.nontrivial));
        stats.extra.insert("exhaustive_class_counts".into(), json!(total.flag_counts));
        let by_sig: BTreeMap<&String, u64> = total.by_sig.iter().map(|(k, v)| (k, v.0)).collect();
        stats.extra.insert("exhaustive_violating_inputs_by_signature".into(), json!(by_sig));
        if total.nontrivial as usize > total.hashes.len() {
            stats.extra.insert(
                "note_distinct_nontrivial".into(),
                json!(format!(
                    "distinct_nontrivial counts at most {} of the {} non-trivial enumerated strings (all enumerated strings are distinct by construction)",
                    HASH_CAP, total.nontrivial
                )),
            );
        }
        // one reproduction per signature: the shortest, then the first in enumeration order
        let mut found: Vec<((usize, u64), Found)> = total.by_sig.into_values().map(|(_, key, f)| (key, f)).collect();
        found.sort_by(|a, b| a.0.cmp(&b.0));
        found.into_iter().map(|x| x.1).collect()
    }

    fn health(&self, s: &Stats) -> Result<(), String> {
        let random = s.extra.get("random_phase_evaluations").and_then(|v| v.as_u64()).unwrap_or(s.evaluations);
        if random == 0 {
            return Err("no random cases were evaluated".into());
        }
        let frac = |l: &str| s.label(l) as f64 / random as f64;
        let need: &[(&str, f64)] = &[
            ("has:multibyte-char", 0.20),
            ("has:token-after-multibyte-on-line", 0.10),
            ("has:munch-conflict", 0.50),
            ("has:error-token", 0.15),
            ("has:numeral-without-value", 0.02),
            ("has:comment", 0.10),
            ("has:string", 0.10),
            ("has:float", 0.10),
            ("has:keyword", 0.20),
            ("has:carriage-return", 0.05),
            ("gen:fragments/free", 0.10),
            ("gen:fragments/avoid-open-findings", 0.60),
            ("has:multi-line-string", 0.10),
            ("has:token-after-multi-line-token", 0.10),
        ];
        for (l, min) in need {
            if frac(l) < *min {
                return Err(format!("label {} in only {:.2}% of the random cases (need {:.0}%)", l, frac(l) * 100.0, min * 100.0));
            }
        }
        let discards: u64 = s.discards.values().sum();
        if discards as f64 > 0.05 * s.evaluations as f64 {
            return Err(format!("{} of {} cases discarded", discards, s.evaluations));
        }
        if s.extra.get("exhaustive_evaluated").and_then(|v| v.as_u64()).unwrap_or(0) < 200_000 {
            return Err("the exhaustive enumeration did not run".into());
        }
        Ok(())
    }

    fn rule(&self) -> String {
        "cases: (a) EXHAUSTIVE: every string of length <= 5 (quick) / <= 6 (thorough) over the 23 symbols \
         a e _ 1 0 . \" ' \\n space \\t \\r / - > < = : ! + ö 字 ！(U+FF01, shares two UTF-8 bytes with the fullwidth digits), and every concatenation of <= 2 (quick) / <= 3 (thorough) fragments of the \
         fragment list (all fixed spellings, keyword prefixes/extensions, numerals such as 1. .1 1e5 1e+ 1e-3 1..2 1.e3 and numerals \
         without value, strings with embedded newlines / multi-byte characters / unterminated, comments with and without newline, \
         operators with prefixes and extensions, conflict markers, CR/LF/tab mixes, non-ASCII letters, 4-byte emoji, combining marks, \
         control characters); (b) RANDOM: tape-driven concatenations of 1..24 (thorough 1..40) such fragments and raw alphabet runs with \
         random separators; for 80 % of the random cases the character after a numeral `D.` is blanked when it is non-ASCII (switch for \
         the open finding C17/lex/kind/want=Float/got=Error/next=non-ascii). Oracle: walking the text with an independent maximal-munch lexer (longest match over the \
         token definitions, fixed spelling wins a tie against the identifier rule) the reported token list must be exactly: next \
         non-[space,tab,CR] character starts a token; same kind, same payload (identifier text, string contents, number value bit-exact, \
         comment text trimmed, bool) and same extent as the reference token there; where no definition matches an Error token that starts \
         there and ends at the position its (line_end, col_end) denotes, >= 1 character, inside the text (extent otherwise free; the walk \
         resumes after it); a numeral whose text has no value (> i64, \
         non-ASCII digits) is an Error token of exactly the numeral's extent; nothing but skipped whitespace may remain after the last \
         token. Every token's line_start/col_start/line_end/col_end must equal the position computed by an independent line index: \
         line = 1 + number of '\\n' before the character, column = 1 + characters since that '\\n'; (line_end, col_end) = position of the \
         token's last character with the column made exclusive (+1), also for tokens that contain newlines. Non-trivial: the text has \
         >= 2 tokens and (a multi-byte character, or a '\\n' inside a token other than the newline token, or a position where at least \
         two different token definitions match a prefix so that maximal munch / priority decides). distinct = by text."
            .into()
    }

    fn assumptions(&self) -> Vec<String> {
        vec![
            "the documented token set is the list of spellings and regular expressions in sylt-tokenizer/src/token.rs read as ordinary regular expressions; 'longest match' is taken literally (the reference lexer backtracks to the longest complete match, e.g. '1e+' is Int, Identifier, Plus)".into(),
            "only '\\n' ends a line; '\\r' is skipped whitespace between tokens and an ordinary character inside comments and strings; columns count Unicode scalar values (not bytes, not grapheme clusters)".into(),
            "whether \\d includes non-ASCII decimal digits is not documented: both readings are accepted (the numeral is then an Error token of the numeral's extent, or each such digit is an unmatched character); texts containing numeric characters outside the harness's decimal-digit table are discarded".into(),
            "the extent of an Error token at a place where no definition matches is not constrained (>= 1 character, inside the text, not overlapping): it is read off the token's (line_end, col_end) through the line index, where 'one past the last column of a line' and 'column 1 of the next line' are the same position (an unterminated string literal is one error token up to the end of the text in this implementation)".into(),
            "a comment's payload is its text after '//' with leading and trailing Unicode white space removed; number values are compared with Rust's correctly rounded decimal parsing".into(),
        ]
    }
}
