//! C19 helper: types / values of a case, the admitted-operator predicates (a model of the type checker's
//! `add sub mul div cmp equ Neg`), the structural reference model, and the renderer to Sylt source.
use serde::{Deserialize, Serialize};
use std::cmp::Ordering;
use syltmodel::fmt::{cmp_int_float, lua_float};

#[derive(Clone, Debug, PartialEq, Serialize, Deserialize)]
pub enum Ty {
    Int,
    Float,
    Str,
    Bool,
    Tuple(Vec<Ty>),
    List(Box<Ty>),
    /// declared blob `B<id>` with fields f0, f1, ... (no function fields)
    Blob(u32, Vec<Ty>),
    /// declared enum `E<id>` with variants V0, V1, ... (payload or none)
    Enum(u32, Vec<Option<Ty>>),
}

#[derive(Clone, Debug, PartialEq, Serialize, Deserialize)]
pub enum Val {
    Int(i64),
    /// literal text of a float (`2.5`, `-0.0`): exact through JSON, parsed with Rust's `str::parse::<f64>`
    Float(String),
    Str(String),
    Bool(bool),
    Tuple(Vec<Val>),
    List(Vec<Val>),
    /// fields in declaration order; `rev` = the literal lists them in reverse order
    Blob { fields: Vec<Val>, rev: bool },
    Variant(usize, Option<Box<Val>>),
}

impl Ty {
    pub fn kind(&self) -> &'static str {
        match self {
            Ty::Int => "int",
            Ty::Float => "float",
            Ty::Str => "str",
            Ty::Bool => "bool",
            Ty::Tuple(_) => "tuple",
            Ty::List(_) => "list",
            Ty::Blob(..) => "blob",
            Ty::Enum(..) => "enum",
        }
    }
    pub fn is_num(&self) -> bool {
        matches!(self, Ty::Int | Ty::Float)
    }
    pub fn depth(&self) -> usize {
        match self {
            Ty::Int | Ty::Float | Ty::Str | Ty::Bool => 0,
            Ty::Tuple(ts) => 1 + ts.iter().map(|t| t.depth()).max().unwrap_or(0),
            Ty::List(t) => 1 + t.depth(),
            Ty::Blob(_, fs) => 1 + fs.iter().map(|t| t.depth()).max().unwrap_or(0),
            Ty::Enum(_, vs) => 1 + vs.iter().flatten().map(|t| t.depth()).max().unwrap_or(0),
        }
    }
    /// a `str` leaf reachable through tuples only
    pub fn tuple_str_leaf(&self) -> bool {
        match self {
            Ty::Str => true,
            Ty::Tuple(ts) => ts.iter().any(|t| t.tuple_str_leaf()),
            _ => false,
        }
    }
    /// a number leaf reachable through tuples only
    pub fn tuple_num_leaf(&self) -> bool {
        match self {
            Ty::Int | Ty::Float => true,
            Ty::Tuple(ts) => ts.iter().any(|t| t.tuple_num_leaf()),
            _ => false,
        }
    }
    /// numbers and (nested) tuples of numbers only
    pub fn all_num(&self) -> bool {
        match self {
            Ty::Int | Ty::Float => true,
            Ty::Tuple(ts) => ts.iter().all(|t| t.all_num()),
            _ => false,
        }
    }
}

pub fn parse_float(s: &str) -> Option<f64> {
    let (neg, body) = match s.strip_prefix('-') {
        Some(b) => (true, b),
        None => (false, s),
    };
    let ok_shape = !body.is_empty() && body.bytes().all(|b| b.is_ascii_digit() || b == b'.') && body.bytes().filter(|b| *b == b'.').count() == 1 && body.len() >= 2;
    if !ok_shape {
        return None;
    }
    let f: f64 = body.parse().ok()?;
    if !f.is_finite() {
        return None;
    }
    Some(if neg { -f } else { f })
}

/// does the value have the shape of the type? Int/Float leaves may be exchanged at positions reachable through
/// tuples only (`reach`), which yields a *different* Sylt type for that value (int-vs-float comparison cases).
pub fn conforms(v: &Val, ty: &Ty, reach: bool) -> bool {
    match (v, ty) {
        (Val::Int(_), Ty::Int) => true,
        (Val::Float(s), Ty::Float) => parse_float(s).is_some(),
        (Val::Int(_), Ty::Float) => reach,
        (Val::Float(s), Ty::Int) => reach && parse_float(s).is_some(),
        (Val::Str(s), Ty::Str) => !s.contains('"') && !s.contains('\\') && !s.contains('\n') && !s.contains('\r'),
        (Val::Bool(_), Ty::Bool) => true,
        (Val::Tuple(vs), Ty::Tuple(ts)) => vs.len() == ts.len() && vs.iter().zip(ts).all(|(v, t)| conforms(v, t, reach)),
        (Val::List(vs), Ty::List(t)) => vs.iter().all(|v| conforms(v, t, false)),
        (Val::Blob { fields, .. }, Ty::Blob(_, fs)) => fields.len() == fs.len() && fields.iter().zip(fs).all(|(v, t)| conforms(v, t, false)),
        (Val::Variant(i, p), Ty::Enum(_, vs)) => match (vs.get(*i), p) {
            (Some(None), None) => true,
            (Some(Some(t)), Some(p)) => conforms(p, t, false),
            _ => false,
        },
        _ => false,
    }
}

/// the Sylt type of a value of (base) type `ty`
pub fn vtype(v: &Val, ty: &Ty) -> Ty {
    match (v, ty) {
        (Val::Int(_), _) => Ty::Int,
        (Val::Float(_), _) => Ty::Float,
        (Val::Tuple(vs), Ty::Tuple(ts)) => Ty::Tuple(vs.iter().zip(ts).map(|(v, t)| vtype(v, t)).collect()),
        _ => ty.clone(),
    }
}

// ------------------------------------------------------------------------------------------------
// admitted operators: re-derived from typechecker.rs `add sub mul div div_res equ cmp`, `Constraint::Neg`
// ------------------------------------------------------------------------------------------------

pub fn adm_cmp(a: &Ty, b: &Ty) -> bool {
    match (a, b) {
        (Ty::Int | Ty::Float, Ty::Int | Ty::Float) => true,
        (Ty::Str, Ty::Str) => true,
        (Ty::Tuple(x), Ty::Tuple(y)) => x.len() == y.len() && x.iter().zip(y).all(|(p, q)| adm_cmp(p, q)),
        _ => false,
    }
}
pub fn adm_add(a: &Ty, b: &Ty) -> bool {
    match (a, b) {
        (Ty::Int, Ty::Int) | (Ty::Float, Ty::Float) | (Ty::Str, Ty::Str) => true,
        (Ty::Tuple(x), Ty::Tuple(y)) => x.len() == y.len() && x.iter().zip(y).all(|(p, q)| adm_add(p, q)),
        _ => false,
    }
}
pub fn adm_submul(a: &Ty, b: &Ty) -> bool {
    match (a, b) {
        (Ty::Int, Ty::Int) | (Ty::Float, Ty::Float) => true,
        (Ty::Tuple(x), Ty::Tuple(y)) => x.len() == y.len() && x.iter().zip(y).all(|(p, q)| adm_submul(p, q)),
        _ => false,
    }
}
pub fn adm_div(a: &Ty, b: &Ty) -> bool {
    match (a, b) {
        (Ty::Int | Ty::Float, Ty::Int | Ty::Float) => true,
        (Ty::Tuple(x), Ty::Int | Ty::Float) => x.iter().all(|p| adm_div(p, b)),
        (Ty::Tuple(x), Ty::Tuple(y)) => x.len() == y.len() && x.iter().zip(y).all(|(p, q)| adm_div(p, q)),
        _ => false,
    }
}

// ------------------------------------------------------------------------------------------------
// reference model
// ------------------------------------------------------------------------------------------------

#[derive(Clone, Debug)]
pub enum M {
    I(i64),
    F(f64),
    S(String),
    B(bool),
    T(Vec<M>),
    L(Vec<M>),
    Blob(Vec<M>),
    Var(usize, Option<Box<M>>),
}

pub fn to_m(v: &Val) -> M {
    match v {
        Val::Int(i) => M::I(*i),
        Val::Float(s) => M::F(parse_float(s).unwrap_or(0.0)),
        Val::Str(s) => M::S(s.clone()),
        Val::Bool(b) => M::B(*b),
        Val::Tuple(vs) => M::T(vs.iter().map(to_m).collect()),
        Val::List(vs) => M::L(vs.iter().map(to_m).collect()),
        Val::Blob { fields, .. } => M::Blob(fields.iter().map(to_m).collect()),
        Val::Variant(i, p) => M::Var(*i, p.as_ref().map(|p| Box::new(to_m(p)))),
    }
}

/// structural equality (values of one type)
pub fn m_eq(a: &M, b: &M) -> bool {
    match (a, b) {
        (M::I(x), M::I(y)) => x == y,
        (M::F(x), M::F(y)) => x == y,
        (M::I(x), M::F(y)) | (M::F(y), M::I(x)) => cmp_int_float(*x, *y) == Some(Ordering::Equal),
        (M::S(x), M::S(y)) => x.as_bytes() == y.as_bytes(),
        (M::B(x), M::B(y)) => x == y,
        (M::T(x), M::T(y)) | (M::L(x), M::L(y)) | (M::Blob(x), M::Blob(y)) => x.len() == y.len() && x.iter().zip(y).all(|(p, q)| m_eq(p, q)),
        (M::Var(i, p), M::Var(j, q)) => {
            i == j
                && match (p, q) {
                    (None, None) => true,
                    (Some(p), Some(q)) => m_eq(p, q),
                    _ => false,
                }
        }
        _ => false,
    }
}

/// the one lexicographic order: numbers by value (exact int/float), strings bytewise, tuples lexicographically
pub fn m_cmp(a: &M, b: &M) -> Option<Ordering> {
    match (a, b) {
        (M::I(x), M::I(y)) => Some(x.cmp(y)),
        (M::F(x), M::F(y)) => x.partial_cmp(y),
        (M::I(x), M::F(y)) => cmp_int_float(*x, *y),
        (M::F(x), M::I(y)) => cmp_int_float(*y, *x).map(|o| o.reverse()),
        (M::S(x), M::S(y)) => Some(x.as_bytes().cmp(y.as_bytes())),
        (M::T(x), M::T(y)) if x.len() == y.len() => {
            for (p, q) in x.iter().zip(y) {
                match m_cmp(p, q)? {
                    Ordering::Equal => {}
                    o => return Some(o),
                }
            }
            Some(Ordering::Equal)
        }
        _ => None,
    }
}

#[derive(Clone, Copy, Debug, PartialEq, Eq, PartialOrd, Ord, Serialize, Deserialize)]
pub enum OpK {
    Eq,
    Ne,
    Lt,
    Le,
    Gt,
    Ge,
    Add,
    Sub,
    Mul,
    Div,
    DivNum,
    Neg,
}
impl OpK {
    pub fn sym(self) -> &'static str {
        match self {
            OpK::Eq => "==",
            OpK::Ne => "!=",
            OpK::Lt => "<",
            OpK::Le => "<=",
            OpK::Gt => ">",
            OpK::Ge => ">=",
            OpK::Add => "+",
            OpK::Sub => "-",
            OpK::Mul => "*",
            OpK::Div | OpK::DivNum => "/",
            OpK::Neg => "neg",
        }
    }
    pub fn name(self) -> &'static str {
        match self {
            OpK::Eq => "eq",
            OpK::Ne => "ne",
            OpK::Lt => "lt",
            OpK::Le => "le",
            OpK::Gt => "gt",
            OpK::Ge => "ge",
            OpK::Add => "add",
            OpK::Sub => "sub",
            OpK::Mul => "mul",
            OpK::Div => "div",
            OpK::DivNum => "div-by-number",
            OpK::Neg => "neg",
        }
    }
    pub fn is_bool(self) -> bool {
        matches!(self, OpK::Eq | OpK::Ne | OpK::Lt | OpK::Le | OpK::Gt | OpK::Ge)
    }
}

fn num_f(m: &M) -> Option<f64> {
    match m {
        M::I(i) => Some(*i as f64),
        M::F(f) => Some(*f),
        _ => None,
    }
}

/// element-wise arithmetic; None = outside the modelled domain
pub fn m_arith(op: OpK, a: &M, b: &M) -> Option<M> {
    match (a, b) {
        (M::T(x), M::T(y)) if x.len() == y.len() => Some(M::T(x.iter().zip(y).map(|(p, q)| m_arith(op, p, q)).collect::<Option<Vec<M>>>()?)),
        (M::T(x), M::I(_) | M::F(_)) if op == OpK::Div => Some(M::T(x.iter().map(|p| m_arith(op, p, b)).collect::<Option<Vec<M>>>()?)),
        (M::S(x), M::S(y)) if op == OpK::Add => Some(M::S(format!("{}{}", x, y))),
        (M::I(x), M::I(y)) => match op {
            OpK::Add => Some(M::I(x.wrapping_add(*y))),
            OpK::Sub => Some(M::I(x.wrapping_sub(*y))),
            OpK::Mul => Some(M::I(x.wrapping_mul(*y))),
            OpK::Div => Some(M::F(*x as f64 / *y as f64)),
            _ => None,
        },
        (M::F(x), M::F(y)) => match op {
            OpK::Add => Some(M::F(x + y)),
            OpK::Sub => Some(M::F(x - y)),
            OpK::Mul => Some(M::F(x * y)),
            OpK::Div => Some(M::F(x / y)),
            _ => None,
        },
        (M::I(_) | M::F(_), M::I(_) | M::F(_)) if op == OpK::Div => Some(M::F(num_f(a)? / num_f(b)?)),
        _ => None,
    }
}

pub fn m_neg(a: &M) -> Option<M> {
    match a {
        M::I(x) => Some(M::I(x.wrapping_neg())),
        M::F(x) => Some(M::F(-x)),
        M::T(xs) => Some(M::T(xs.iter().map(m_neg).collect::<Option<Vec<M>>>()?)),
        _ => None,
    }
}

/// what `print` shows (only numbers, strings, booleans and tuples of those are ever printed by this check)
pub fn show(m: &M) -> Option<String> {
    Some(match m {
        M::I(i) => format!("{}", i),
        M::F(f) => {
            if f.is_nan() {
                return None;
            }
            lua_float(*f)
        }
        M::S(s) => s.clone(),
        M::B(b) => format!("{}", b),
        M::T(xs) => {
            let parts = xs.iter().map(show).collect::<Option<Vec<String>>>()?;
            if parts.len() == 1 {
                format!("({},)", parts[0])
            } else {
                format!("({})", parts.join(", "))
            }
        }
        _ => return None,
    })
}

pub fn has_zero(m: &M) -> bool {
    match m {
        M::I(i) => *i == 0,
        M::F(f) => *f == 0.0,
        M::T(xs) => xs.iter().any(has_zero),
        _ => false,
    }
}
pub fn ints_small(m: &M) -> bool {
    match m {
        M::I(i) => i.unsigned_abs() <= (1u64 << 31),
        M::F(f) => f.abs() <= 1e9,
        M::T(xs) => xs.iter().all(ints_small),
        _ => true,
    }
}

// ------------------------------------------------------------------------------------------------
// rendering
// ------------------------------------------------------------------------------------------------

pub fn type_text(t: &Ty) -> String {
    match t {
        Ty::Int => "int".into(),
        Ty::Float => "float".into(),
        Ty::Str => "str".into(),
        Ty::Bool => "bool".into(),
        Ty::Tuple(ts) => {
            let parts: Vec<String> = ts.iter().map(type_text).collect();
            if parts.len() == 1 {
                format!("({},)", parts[0])
            } else {
                format!("({})", parts.join(", "))
            }
        }
        Ty::List(t) => format!("[{}]", type_text(t)),
        Ty::Blob(id, _) => format!("B{}", id),
        Ty::Enum(id, _) => format!("E{}", id),
    }
}

/// declarations of every blob / enum in the type, inner ones first
pub fn decls(t: &Ty, out: &mut Vec<String>) {
    match t {
        Ty::Tuple(ts) => ts.iter().for_each(|t| decls(t, out)),
        Ty::List(t) => decls(t, out),
        Ty::Blob(id, fs) => {
            fs.iter().for_each(|t| decls(t, out));
            let fields: Vec<String> = fs.iter().enumerate().map(|(i, t)| format!("f{}: {}", i, type_text(t))).collect();
            if fields.is_empty() {
                out.push(format!("B{} :: blob {{ }}", id));
            } else {
                out.push(format!("B{} :: blob {{ {} }}", id, fields.join(", ")));
            }
        }
        Ty::Enum(id, vs) => {
            vs.iter().flatten().for_each(|t| decls(t, out));
            let mut s = format!("E{} :: enum\n", id);
            for (i, v) in vs.iter().enumerate() {
                match v {
                    Some(t) => s.push_str(&format!("    V{} {},\n", i, type_text(t))),
                    None => s.push_str(&format!("    V{},\n", i)),
                }
            }
            s.push_str("end");
            out.push(s);
        }
        _ => {}
    }
}

/// literal text; `nested` = not a whole right-hand side (payload variants and negative numbers get parentheses
/// where the grammar would otherwise read on: Appendix A)
pub fn val_text(v: &Val, ty: &Ty, nested: bool) -> String {
    match (v, ty) {
        (Val::Int(i), _) => format!("{}", i),
        (Val::Float(s), _) => s.clone(),
        (Val::Str(s), _) => format!("\"{}\"", s),
        (Val::Bool(b), _) => format!("{}", b),
        (Val::Tuple(vs), Ty::Tuple(ts)) => {
            let parts: Vec<String> = vs.iter().zip(ts).map(|(v, t)| val_text(v, t, true)).collect();
            if parts.len() == 1 {
                format!("({},)", parts[0])
            } else {
                format!("({})", parts.join(", "))
            }
        }
        (Val::List(vs), Ty::List(t)) => {
            let parts: Vec<String> = vs.iter().map(|v| val_text(v, t, true)).collect();
            format!("[{}]", parts.join(", "))
        }
        (Val::Blob { fields, rev }, Ty::Blob(id, fs)) => {
            let mut parts: Vec<String> = fields.iter().zip(fs).enumerate().map(|(i, (v, t))| format!("f{}: {}", i, val_text(v, t, true))).collect();
            if *rev {
                parts.reverse();
            }
            if parts.is_empty() {
                format!("B{} {{ }}", id)
            } else {
                format!("B{} {{ {} }}", id, parts.join(", "))
            }
        }
        (Val::Variant(i, p), Ty::Enum(id, vs)) => match (p, vs.get(*i)) {
            (Some(p), Some(Some(t))) => {
                let mut pt = val_text(p, t, true);
                if pt.starts_with('-') {
                    pt = format!("({})", pt);
                }
                if nested {
                    format!("(E{}.V{} {})", id, i, pt)
                } else {
                    format!("E{}.V{} {}", id, i, pt)
                }
            }
            _ => format!("E{}.V{}", id, i),
        },
        _ => "<malformed>".into(),
    }
}
