//! C04 — constants are immutable and pure functions stay pure (planted-fault search: a generated well-typed base
//! program + one forbidden construct at a generated placement must be rejected with a type error; the legal twin of
//! the same plant at the same place must stay accepted).
use crate::common::*;
use arbitrary::Unstructured;
use serde::{Deserialize, Serialize};
use std::collections::BTreeMap;
use syltmodel::ast::*;
use syltmodel::gen::{Gen, GenCfg};
use syltmodel::print::Plan as SurfacePlan;
use vcore::{compile, Check, Labels, Outcome, Plan, Project, Stats, Step, Tape, Tier, Verdict};

#[path = "c04_plant.rs"]
mod cat;
#[path = "c04_kinds.rs"]
mod kinds;
use cat::{Sel, V3, EMARK, SMARK};

pub struct C04;
pub const CHECK: C04 = C04;
pub fn plan(t: Tier) -> Plan {
    let mut p = Plan::new(t.pick(16_000, 200_000), t.pick(2600, 4000));
    // the structural shrinker (own chain removal, hoisting, GenAST shrinking) does the work; keep tape shrinking short
    p.max_shrink_iters = 40;
    p
}

#[derive(Clone, Serialize, Deserialize)]
pub struct Case {
    /// base program with the marker nodes (`@@C04S@@` statement / `@@C04E@@` expression) at the planted place
    pub prog: ProgCase,
    /// text substituted for the statement marker (base: nothing)
    pub stmt: V3,
    /// text substituted for the expression marker
    pub expr: V3,
    /// text prepended to the file rendered from `prog` (imports, planted globals)
    pub prelude: V3,
    /// second file of the project
    pub other: Option<(String, V3)>,
    pub prog_path: String,
    pub main: String,
    pub kind: String,
    pub variant: String,
    pub via: String,
    pub nest: Vec<String>,
    pub depth: usize,
    pub placement: String,
    pub mode: String,
    pub expect: String,
    /// generated with the known-finding avoidance switches off
    pub raw: bool,
    /// the plant without its own nesting chain (used by the shrinker)
    #[serde(default)]
    pub flat_stmt: Option<V3>,
    #[serde(default)]
    pub flat_prelude: Option<V3>,
    /// the violating project as generated, for human readers (re-rendered on evaluation)
    #[serde(default)]
    pub bad_files: BTreeMap<String, String>,
}

#[derive(Clone, Copy, PartialEq)]
enum Which {
    Base,
    Twin,
    Bad,
}
fn pick<'a>(v: &'a V3, w: Which) -> &'a str {
    match w {
        Which::Base => &v.base,
        Which::Twin => &v.twin,
        Which::Bad => &v.bad,
    }
}

fn project(case: &Case, rendered: &str, w: Which) -> Project {
    let body = subst(&subst(rendered, SMARK, pick(&case.stmt, w)), EMARK, pick(&case.expr, w));
    let mut files = BTreeMap::new();
    files.insert(case.prog_path.clone(), format!("{}{}", pick(&case.prelude, w), body));
    if let Some((path, v)) = &case.other {
        files.insert(path.clone(), pick(v, w).to_string());
    }
    Project { files, main: case.main.clone(), std: true, require: None }
}

/// replace the marker by `text`, continuation lines indented like the line that carries the marker
fn subst(rendered: &str, marker: &str, text: &str) -> String {
    let pos = match rendered.find(marker) {
        Some(p) => p,
        None => return rendered.to_string(),
    };
    let line_start = rendered[..pos].rfind('\n').map(|i| i + 1).unwrap_or(0);
    let indent: String = rendered[line_start..pos].chars().take_while(|c| *c == ' ' || *c == '\t').collect();
    let mut out = String::new();
    for (i, l) in text.lines().enumerate() {
        if i > 0 {
            out.push('\n');
            out.push_str(&indent);
        }
        out.push_str(l);
    }
    format!("{}{}{}", &rendered[..pos], out, &rendered[pos + marker.len()..])
}

fn show(p: &Project) -> String {
    let mut s = String::new();
    for (path, text) in &p.files {
        s.push_str(&format!("--- {} ---\n{}", path, text));
        if !text.ends_with('\n') {
            s.push('\n');
        }
    }
    s
}

/// signature class: what stands between the enclosing function and the planted construct
fn nest_class(case: &Case) -> &'static str {
    let closure = case.nest.iter().any(|n| n.contains("closure") || n.contains("lambda"));
    if closure {
        "through-closure"
    } else if case.depth > 0 {
        "nested-block"
    } else {
        "direct"
    }
}

fn signature(case: &Case) -> String {
    if case.kind == "pu-launder" {
        return "C04/accepted/pu-type/via-fn-annotation".to_string();
    }
    format!("C04/accepted/{}/{}", case.kind, nest_class(case))
}

impl Check for C04 {
    type Case = Case;
    fn id(&self) -> &'static str {
        "C04"
    }

    fn generate(&self, u: &mut Unstructured, tier: Tier) -> Option<Case> {
        let mut t = Tape::new(u);
        // all plant choices are drawn before the base program so that they do not depend on how much tape it eats
        let mut sel = Sel { b: (0..48).map(|_| t.byte()).collect(), i: 0 };
        // 20 % of the budget runs with the known-finding avoidance switch off (hits are classified by signature)
        let raw = sel.chance(1, 5) && std::env::var("C04_AVOID").is_err();
        let cfg = GenCfg::core(tier == Tier::Thorough);
        let prog = Gen::new(&mut t, cfg).program();
        let b = kinds::build(&mut sel, &prog, raw)?;
        let plan = SurfacePlan::default();
        let source = render(&b.prog, &plan).text;
        let mut case = Case {
            prog: ProgCase { prog: b.prog, plan, source },
            stmt: b.stmt,
            expr: b.expr,
            prelude: b.prelude,
            other: b.other,
            prog_path: b.prog_path,
            main: b.main,
            kind: b.kind.to_string(),
            variant: b.variant,
            via: b.via.to_string(),
            nest: b.nest.iter().map(|s| s.to_string()).collect(),
            depth: b.depth,
            placement: b.placement,
            mode: b.mode.to_string(),
            expect: b.expect.to_string(),
            raw,
            flat_stmt: b.flat_stmt,
            flat_prelude: b.flat_prelude,
            bad_files: BTreeMap::new(),
        };
        case.bad_files = project(&case, &case.prog.source, Which::Bad).files;
        Some(case)
    }

    fn evaluate(&self, case: &Case, labels: &mut Labels) -> Verdict {
        let rendered = render(&case.prog.prog, &case.prog.plan).text;
        // the shrinker may have removed the block that carried the marker
        let (ns, ne) = (rendered.matches(SMARK).count(), rendered.matches(EMARK).count());
        let need_s = !case.stmt.bad.is_empty() || !case.stmt.twin.is_empty();
        let need_e = !case.expr.bad.is_empty();
        if (need_s && ns != 1) || (need_e && ne != 1) || (!need_s && ns != 0) || (!need_e && ne != 0) {
            return Verdict::Discard("marker-lost".into());
        }
        let depth = case.depth.min(5);
        labels.add(format!("kind:{}", case.kind));
        labels.add(format!("cell:{}:{}", case.kind, depth));
        labels.add(format!("depth:{}", depth));
        labels.add(format!("variant:{}/{}", case.kind, case.variant.split(':').next().unwrap_or("")));
        labels.add(format!("placement:{}", case.placement));
        labels.add(format!("mode:{}", case.mode));
        if !case.via.is_empty() {
            labels.add(format!("via:{}", case.via));
        }
        for n in &case.nest {
            labels.add(format!("nest:{}", n));
        }
        if case.raw {
            labels.add("avoidance-off");
        }

        let base = compile(&project(case, &rendered, Which::Base));
        match &base {
            Outcome::Accepted(_) => {}
            Outcome::Rejected { errors, .. } => {
                labels.add(format!("base-rejected:{}:{}", errors[0].kind, errors[0].sub));
                return Verdict::Discard("base-rejected".into());
            }
            Outcome::Panicked { .. } => return Verdict::Discard("compiler-panicked".into()),
        }
        let twin_p = project(case, &rendered, Which::Twin);
        let twin = compile(&twin_p);
        match &twin {
            Outcome::Accepted(_) => {}
            Outcome::Rejected { errors, .. } => {
                labels.add(format!("twin-rejected:{}:{}:{}", case.kind, errors[0].kind, errors[0].sub));
                if let Ok(d) = std::env::var("C04_SAVE_TWIN") {
                    let _ = std::fs::create_dir_all(&d);
                    let _ = std::fs::write(
                        format!("{}/twin_{}_{:x}.sy", d, case.kind, vcore::hash64(&show(&twin_p))),
                        format!("// {} {} {}\n// {}\n{}", case.kind, case.variant, case.mode, twin.short(), show(&twin_p)),
                    );
                }
                return Verdict::Discard("twin-rejected".into());
            }
            Outcome::Panicked { .. } => return Verdict::Discard("compiler-panicked".into()),
        }
        let bad_p = project(case, &rendered, Which::Bad);
        let bad = compile(&bad_p);
        let nontrivial = case.depth >= 1 || !case.via.is_empty();
        match &bad {
            Outcome::Rejected { errors, bytes_written } => {
                if *bytes_written != 0 {
                    return Verdict::Violation {
                        signature: format!("C04/bytes-written-on-reject/{}", case.kind),
                        detail: format!("rejected ({}) but {} bytes of Lua were written\n{}", bad.short(), bytes_written, show(&bad_p)),
                    };
                }
                let e = &errors[0];
                if e.kind != "Type" {
                    // the plant is malformed (syntax / name resolution): generator problem, not a verdict
                    labels.add(format!("bad-not-type-error:{}:{}", case.kind, e.kind));
                    if let Ok(d) = std::env::var("C04_SAVE_TWIN") {
                        let _ = std::fs::create_dir_all(&d);
                        let _ = std::fs::write(format!("{}/nontype_{}_{:x}.sy", d, case.kind, vcore::hash64(&show(&bad_p))), format!("// {}\n{}", bad.short(), show(&bad_p)));
                    }
                    return Verdict::Discard("violation-variant-not-a-type-error".into());
                }
                labels.add(format!("reject:{}", e.sub));
                if e.sub == case.expect {
                    labels.add("reject-expected");
                    Verdict::Pass { nontrivial }
                } else {
                    labels.add(format!("reject-other:{}:{}", case.kind, e.sub));
                    Verdict::Pass { nontrivial: false }
                }
            }
            Outcome::Accepted(_) => Verdict::Violation {
                signature: signature(case),
                detail: format!(
                    "the compiler accepted a program with a forbidden construct: kind={} variant={} mode={} placement={} depth={} nest={:?} via={:?}; \
                     the legal twin and the base program are accepted too.\n=== violating project ===\n{}=== planted (violation) ===\n{}{}\n=== planted (legal twin) ===\n{}{}\n",
                    case.kind,
                    case.variant,
                    case.mode,
                    case.placement,
                    case.depth,
                    case.nest,
                    case.via,
                    show(&bad_p),
                    case.stmt.bad,
                    case.expr.bad,
                    case.stmt.twin,
                    case.expr.twin
                ),
            },
            Outcome::Panicked { .. } => Verdict::Discard("compiler-panicked".into()),
        }
    }

    fn simplify_at(&self, case: &Case, idx: usize) -> Step<Case> {
        let finish = |mut c: Case| {
            c.prog.source = render(&c.prog.prog, &c.prog.plan).text;
            c.bad_files = project(&c, &c.prog.source, Which::Bad).files;
            Step::Candidate(c)
        };
        match idx {
            // 0: drop the own nesting chain
            0 => {
                if case.nest.is_empty() || (case.flat_stmt.is_none() && case.flat_prelude.is_none()) {
                    return Step::Skip;
                }
                let mut c = case.clone();
                if let Some(f) = c.flat_stmt.take() {
                    c.stmt = f;
                }
                if let Some(f) = c.flat_prelude.take() {
                    c.prelude = f;
                }
                c.depth = c.depth.saturating_sub(c.nest.len());
                c.nest.clear();
                finish(c)
            }
            // 1: hoist a statement plant into an otherwise empty `start` (pure `start` when the site was pure, so
            // that the legality of the plant is not changed by the move)
            1 => {
                let has_stmt = !case.stmt.bad.is_empty() || !case.stmt.twin.is_empty();
                if !has_stmt || case.prog_path != case.main {
                    return Step::Skip;
                }
                let pure = case.mode == "base-pure";
                let mut p = Program::default();
                let v = p.new_var("start".into(), Ty::Fn(vec![], Box::new(Ty::Void), pure), VarKind::Global, false);
                let def = FnDef { params: vec![], ret: Ty::Void, body: Block { stmts: vec![Stmt::Raw(SMARK.to_string())], value: None }, pure };
                p.globals.push(Global { var: v, mutable: false, value: e(Ty::Fn(vec![], Box::new(Ty::Void), pure), EKind::Lambda(Box::new(def))) });
                if p == case.prog.prog {
                    return Step::Skip;
                }
                let mut c = case.clone();
                c.prog.prog = p;
                c.placement = "FnBody".into();
                c.depth = c.nest.len();
                finish(c)
            }
            _ => match shrink_step(&case.prog, idx - 2) {
                Step::End => Step::End,
                Step::Skip => Step::Skip,
                Step::Candidate(p) => {
                    let mut c = case.clone();
                    c.prog = p;
                    finish(c)
                }
            },
        }
    }

    fn sample(&self, case: &Case) -> serde_json::Value {
        vcore::truncate_value(
            serde_json::json!({
                "kind": case.kind, "variant": case.variant, "mode": case.mode, "placement": case.placement, "depth": case.depth,
                "nest": case.nest, "via": case.via, "planted_violation": format!("{}{}", case.stmt.bad, case.expr.bad),
                "planted_twin": format!("{}{}", case.stmt.twin, case.expr.twin), "violating_files": case.bad_files,
            }),
            2500,
        )
    }

    fn rule(&self) -> String {
        "cases: a random well-typed base program (GenAST core profile, plus fixed planted globals / an imported module) with ONE forbidden \
         construct planted at a generated statement or expression site (syltmodel::plant) below 0-4 extra generated nesting levels \
         (if / else / elif / do / case arm / case else / fn closure / pu closure / loop / if-expression / lambda argument). Catalogue: \
         A assignment (= += -= *= /= by type) to a constant: own `::` local, alias chain of a constant, `::` local / parameter / case binding \
         of the base program in scope at the site (also captured by closures), planted or base `::` global, imported constant \
         (ns, ns alias, from, from-as; also the generated program as the imported module), whole-value assignment to a constant blob; \
         B inside a `pu` function (pure site of the base program, own planted `pu` function at an impure site, or own global `pu`): assignment \
         (global, outer local, field, import), `:=` / annotated mutable definition, read of a mutable (global, outer local, field, import, in 13 \
         expression contexts, or at an int expression site of the base), call of an impure function (print, planted fn, fn-typed parameter, local fn \
         closure, alias, immediate lambda, impure std, import, blob field, prime/arrow forms); C impure function where a `pu` type is declared \
         (variable, named function, parameter, blob field, list element, return type, assignment, field assignment, map/filter argument, tuple \
         element, pu-typed argument of the base program). Oracle: base accepted, legal twin (same place, legal variant) accepted, violation => \
         Rejected, first error a TypeError, zero bytes written; Accepted => violation. Rejected base/twin => discard. non-trivial = nesting \
         depth >= 1 below the pure function / the constant's scope, or through an alias or an import; distinct by hash of the case"
            .into()
    }
    fn assumptions(&self) -> Vec<String> {
        vec![
            "a rejection of the violating variant is attributed to the planted construct because the twin, which differs only in that construct, is accepted; \
             the TypeError variant is recorded (reject-expected vs reject-other) but any TypeError satisfies the property"
                .into(),
            "an `fn` type annotation is treated as 'purity not known': passing an impure function through it to a declared `pu` type counts as \
             'impure function accepted where a pu type is declared' (known-finding class pu-type/via-fn-annotation, generated only with avoidance off)"
                .into(),
        ]
    }

    fn health(&self, s: &Stats) -> Result<(), String> {
        if s.evaluations < 1500 {
            return Ok(());
        }
        let n = s.evaluations as f64;
        let disc: u64 = s.discards.values().sum();
        if disc as f64 > 0.30 * n {
            return Err(format!("{} of {} cases discarded: {:?}", disc, s.evaluations, s.discards));
        }
        if s.discard("twin-rejected") as f64 > 0.15 * n {
            return Err(format!("legal twin rejected in {} of {} cases", s.discard("twin-rejected"), s.evaluations));
        }
        if s.discard("violation-variant-not-a-type-error") as f64 > 0.01 * n {
            return Err(format!("planted violation is not even well-formed in {} cases", s.discard("violation-variant-not-a-type-error")));
        }
        for k in kinds::KINDS {
            let c = s.label(&format!("kind:{}", k));
            if (c as f64) < 0.008 * n {
                return Err(format!("kind {} (nearly) absent: {} of {}", k, c, s.evaluations));
            }
            if *k == "const-import-base" {
                continue;
            }
            for d in 0..=3 {
                if s.label(&format!("cell:{}:{}", k, d)) == 0 {
                    return Err(format!("cell {} at depth {} never generated", k, d));
                }
            }
        }
        for m in ["mode:base-pure", "mode:own-pu", "mode:own-global-pu", "mode:impure-site", "via:alias", "via:import"] {
            if s.label(m) * 100 < s.evaluations {
                return Err(format!("{} (nearly) absent: {}", m, s.label(m)));
            }
        }
        let rej: u64 = s.labels.iter().filter(|(k, _)| k.starts_with("reject:")).map(|(_, v)| *v).sum();
        if rej > 0 && (s.label("reject-expected") as f64) < 0.9 * rej as f64 {
            return Err(format!("only {} of {} rejections carry the expected TypeError variant", s.label("reject-expected"), rej));
        }
        if (s.nontrivial as f64) < 0.4 * n {
            return Err(format!("only {} of {} cases are non-trivial", s.nontrivial, s.evaluations));
        }
        Ok(())
    }
}
