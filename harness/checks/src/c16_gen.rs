//! C16 generators: projects biased towards what can expose a dependence on hash-iteration order —
//! wide blobs/enums (their fields/variants live in `HashMap`s), several independent errors of one phase,
//! many near-miss names, several files.
use std::collections::BTreeMap;
use std::sync::OnceLock;
use syltmodel::gen::{Gen, GenCfg};
use syltmodel::print::{print_program, Plan as SurfacePlan};
use vcore::{Project, Tape};

pub struct Built {
    pub project: Project,
    pub class: &'static str,
    /// number of independent errors planted by construction (0 = valid / unknown)
    pub planted: u32,
}

pub const CLASSES: &[&str] = &[
    "valid-generated",
    "valid-wide-decls",
    "valid-multi-file",
    "blob-fields-unresolved-types",
    "enum-variants-unresolved-types",
    "blob-fields-type-errors",
    "enum-variants-type-errors",
    "decls-mixed-errors",
    "similar-name-candidates",
    "duplicate-definitions",
    "type-errors-in-functions",
    "syntax-errors-multi-file",
    "missing-files",
    "import-errors",
    "corpus-mutation",
    "type-grammar",
];

const UNDEF: &[&str] = &["Foo", "Bar", "Baz", "Qux", "Zap", "Zip", "Nope", "Ghost", "Wat", "Huh", "Moo", "Blah"];
const GENERIC: &[&str] = &["X", "Y", "Z", "W", "K", "Q", "R", "S"];
const FIELDS_SHORT: &[&str] = &["a", "b", "c", "d", "e", "f", "g", "h"];
const FIELDS_LONG: &[&str] = &["alpha", "beta", "gamma", "delta", "eps", "zeta", "eta", "theta"];
const VARIANTS: &[&str] = &["Va", "Vb", "Vc", "Vd", "Ve", "Vf", "Vg", "Vh"];
const DECL_NAMES: &[&str] = &["Aa", "Bb", "Cc", "Dd", "Ee", "Ff"];
/// (type text, a literal of that type)
const GOOD: &[(&str, &str)] = &[
    ("int", "1"),
    ("float", "2.5"),
    ("str", "\"s\""),
    ("bool", "true"),
    ("(int, str)", "(1, \"t\")"),
    ("[int]", "[1, 2]"),
    ("(float, float)", "(1.0, 2.0)"),
    ("[str]", "[\"a\"]"),
    ("[(int, bool)]", "[(1, true)]"),
];

fn single(src: String) -> Project {
    Project::single(src)
}

fn files(list: Vec<(&str, String)>) -> Project {
    let mut m = BTreeMap::new();
    for (n, s) in list {
        m.insert(format!("/p/{}.sy", n), s);
    }
    Project { files: m, main: "/p/main.sy".into(), std: true, require: None }
}

const START: &str = "start :: fn do\nend\n";

// ------------------------------------------------------------------------------------------------
// declarations with (possibly erroneous) member types
// ------------------------------------------------------------------------------------------------

#[derive(Clone, Copy, PartialEq)]
enum Bad {
    Unresolved,
    UnknownGeneric,
    TooManyArgs,
}

struct Decl {
    name: String,
    is_enum: bool,
    generics: Vec<String>,
    /// (member name, type text; empty = payload-less variant)
    members: Vec<(String, String)>,
    one_line: bool,
}

fn render_decl(d: &Decl) -> String {
    let gens = if d.generics.is_empty() { String::new() } else { format!("({})", d.generics.iter().map(|g| format!("*{}", g)).collect::<Vec<_>>().join(", ")) };
    let mut s = String::new();
    if d.is_enum {
        let item = |(n, t): &(String, String)| if t.is_empty() { n.clone() } else { format!("{} {}", n, t) };
        if d.one_line {
            s.push_str(&format!("{} :: enum{} {} end\n", d.name, gens, d.members.iter().map(item).collect::<Vec<_>>().join(", ")));
        } else {
            s.push_str(&format!("{} :: enum{}\n", d.name, gens));
            for m in &d.members {
                s.push_str(&format!("    {},\n", item(m)));
            }
            s.push_str("end\n");
        }
    } else {
        let item = |(n, t): &(String, String)| format!("{}: {}", n, t);
        if d.one_line {
            s.push_str(&format!("{} :: blob{} {{ {} }}\n", d.name, gens, d.members.iter().map(item).collect::<Vec<_>>().join(", ")));
        } else {
            s.push_str(&format!("{} :: blob{} {{\n", d.name, gens));
            for m in &d.members {
                s.push_str(&format!("    {},\n", item(m)));
            }
            s.push_str("}\n");
        }
    }
    s
}

fn bad_type(t: &mut Tape, kind: Bad, k: usize) -> String {
    match kind {
        Bad::Unresolved => {
            let n = UNDEF[k % UNDEF.len()];
            match t.below(6) {
                0 | 1 => n.to_string(),
                2 => format!("[{}]", n),
                3 => format!("(int, {})", n),
                4 => format!("fn {} -> int", n),
                _ => format!("{}(int)", n),
            }
        }
        Bad::UnknownGeneric => {
            let g = GENERIC[k % GENERIC.len()];
            // (two different undeclared generics in one member type: which one a single error names must not vary)
            let g2 = GENERIC[(k + 1 + t.below(GENERIC.len() - 1)) % GENERIC.len()];
            match t.below(8) {
                0 | 1 => format!("*{}", g),
                2 => format!("[*{}]", g),
                3 => format!("(*{}, int)", g),
                4 => format!("fn *{} -> *{}", g, g2),
                5 => format!("(*{}, *{})", g, g2),
                6 => format!("[(*{}, fn *{} -> int)]", g2, g),
                _ => format!("fn *{}, *{} -> (*{}, *{})", g, g2, g2, g),
            }
        }
        Bad::TooManyArgs => match t.below(3) {
            0 => "Empty0(int)".to_string(),
            1 => "Empty0(str, int)".to_string(),
            _ => "[Empty0(bool)]".to_string(),
        },
    }
}

/// one declaration with `n` members of which those at `bad_at` carry an erroneous type
fn make_decl(t: &mut Tape, name: &str, is_enum: bool, n: usize, bad: &[(usize, Bad)], serial: &mut usize) -> Decl {
    let long = t.bool();
    let declared_generics: Vec<String> = if t.chance(1, 4) { vec!["T".to_string()] } else { Vec::new() };
    let mut members = Vec::new();
    for i in 0..n {
        let mname = if is_enum {
            VARIANTS[i % VARIANTS.len()].to_string()
        } else if long {
            FIELDS_LONG[i % FIELDS_LONG.len()].to_string()
        } else {
            FIELDS_SHORT[i % FIELDS_SHORT.len()].to_string()
        };
        let ty = match bad.iter().find(|(at, _)| *at == i) {
            Some((_, kind)) => {
                *serial += 1;
                bad_type(t, *kind, *serial - 1)
            }
            None => {
                if is_enum && t.chance(1, 4) {
                    String::new()
                } else if !declared_generics.is_empty() && t.chance(1, 3) {
                    "*T".to_string()
                } else {
                    t.pick(GOOD).0.to_string()
                }
            }
        };
        members.push((mname, ty));
    }
    Decl { name: name.to_string(), is_enum, generics: declared_generics, members, one_line: t.chance(1, 3) }
}

fn pick_positions(t: &mut Tape, n: usize, m: usize) -> Vec<usize> {
    let mut all: Vec<usize> = (0..n).collect();
    let mut out = Vec::new();
    for _ in 0..m.min(n) {
        let i = t.below(all.len());
        out.push(all.remove(i));
    }
    out.sort();
    out
}

fn filler(t: &mut Tape) -> String {
    match t.below(5) {
        0 => String::new(),
        1 => "helper :: fn x: int -> int do\n    ret x + 1\nend\n".into(),
        2 => "counter := 0\nlimit :: 10\n".into(),
        3 => "Point :: blob { x: int, y: int }\n".into(),
        _ => "Shade :: enum\n    Dark,\n    Light int,\nend\n".into(),
    }
}

/// flavour: 0 blob/unresolved, 1 enum/unresolved, 2 blob/type errors, 3 enum/type errors, 4 mixed
fn decl_errors(t: &mut Tape, avoid: bool, flavour: usize) -> Built {
    let class = ["blob-fields-unresolved-types", "enum-variants-unresolved-types", "blob-fields-type-errors", "enum-variants-type-errors", "decls-mixed-errors"][flavour];
    let n_decls = if avoid { 2 + t.below(4) } else { 1 + t.below(3) };
    let mut serial = t.below(UNDEF.len());
    let mut body = String::new();
    let mut planted = 0u32;
    let mut needs_empty0 = false;
    body.push_str(&filler(t));
    for d in 0..n_decls {
        let is_enum = match flavour {
            0 | 2 => false,
            1 | 3 => true,
            _ => t.bool(),
        };
        let n = 3 + t.below(6);
        // with the avoid-switch on at most one member per declaration is erroneous (several declarations,
        // several independent errors, but no two of them inside one hash-ordered collection)
        let m = if avoid { 1 } else { 2 + t.below(n - 1) };
        let pos = pick_positions(t, n, m);
        let bad: Vec<(usize, Bad)> = pos
            .iter()
            .map(|p| {
                let kind = match flavour {
                    0 | 1 => Bad::Unresolved,
                    2 | 3 => {
                        if t.chance(1, 4) {
                            Bad::TooManyArgs
                        } else {
                            Bad::UnknownGeneric
                        }
                    }
                    _ => *t.pick(&[Bad::Unresolved, Bad::UnknownGeneric, Bad::TooManyArgs]),
                };
                if kind == Bad::TooManyArgs {
                    needs_empty0 = true;
                }
                (*p, kind)
            })
            .collect();
        planted += bad.len() as u32;
        let decl = make_decl(t, DECL_NAMES[d % DECL_NAMES.len()], is_enum, n, &bad, &mut serial);
        body.push_str(&render_decl(&decl));
        if t.chance(1, 4) {
            body.push_str(&filler_unique(t, d));
        }
    }
    if needs_empty0 {
        if t.bool() {
            body.push_str("Empty0 :: blob {}\n");
        } else {
            body = format!("Empty0 :: blob {{}}\n{}", body);
        }
    }
    let project = if t.chance(1, 4) {
        files(vec![("main", format!("use other\n{}", START)), ("other", body)])
    } else if t.chance(1, 2) {
        single(format!("{}{}", body, START))
    } else {
        single(format!("{}{}", START, body))
    };
    Built { project, class, planted }
}

fn filler_unique(t: &mut Tape, k: usize) -> String {
    match t.below(3) {
        0 => format!("glob{} :: {}\n", k, k),
        1 => format!("func{} :: fn x: int -> int do\n    ret x * {}\nend\n", k, k + 2),
        _ => format!("Rec{} :: blob {{ p: int, q: str, r: float }}\n", k),
    }
}

// ------------------------------------------------------------------------------------------------
// valid programs
// ------------------------------------------------------------------------------------------------

/// valid wide declarations + code that constructs and inspects them; returns (declarations, statements)
fn wide_valid(t: &mut Tape, prefix: &str, n_decls: usize) -> (String, Vec<String>) {
    let mut decls = String::new();
    let mut stmts = Vec::new();
    for d in 0..n_decls {
        let is_enum = t.chance(2, 5);
        let n = 3 + t.below(6);
        let name = format!("{}{}", prefix, DECL_NAMES[d % DECL_NAMES.len()]);
        let generic = t.chance(1, 4);
        let long = t.bool();
        let mut members: Vec<(String, String)> = Vec::new();
        let mut lits: Vec<String> = Vec::new();
        for i in 0..n {
            let mname = if is_enum {
                VARIANTS[i].to_string()
            } else if long {
                FIELDS_LONG[i].to_string()
            } else {
                FIELDS_SHORT[i].to_string()
            };
            if is_enum && t.chance(1, 4) {
                members.push((mname, String::new()));
                lits.push(String::new());
            } else if generic && (i == 0 || t.chance(1, 4)) {
                members.push((mname, "*T".into()));
                lits.push("7".into());
            } else {
                let (ty, lit) = *t.pick(GOOD);
                members.push((mname, ty.to_string()));
                lits.push(lit.to_string());
            }
        }
        let decl = Decl {
            name: name.clone(),
            is_enum,
            generics: if generic { vec!["T".into()] } else { Vec::new() },
            members: members.clone(),
            one_line: t.chance(1, 3),
        };
        decls.push_str(&render_decl(&decl));
        let var = format!("v{}{}", prefix.to_lowercase(), d);
        if is_enum {
            let k = t.below(n);
            if lits[k].is_empty() {
                stmts.push(format!("{} := {}.{}", var, name, members[k].0));
            } else {
                stmts.push(format!("{} := {}.{} {}", var, name, members[k].0, lits[k]));
            }
            let mut c = format!("case {} do\n", var);
            let m = 1 + t.below(n);
            let order = pick_positions(t, n, m);
            for i in order {
                if lits[i].is_empty() {
                    c.push_str(&format!("        {} -> print({}) end\n", members[i].0, i));
                } else {
                    c.push_str(&format!("        {} x -> print(x) end\n", members[i].0));
                }
            }
            c.push_str("        else print(\"other\") end\n    end");
            stmts.push(c);
        } else {
            // literal with the fields in a tape-chosen order
            let mut order: Vec<usize> = (0..n).collect();
            for i in (1..n).rev() {
                let j = t.below(i + 1);
                order.swap(i, j);
            }
            let mut fields: Vec<String> = order.iter().map(|i| format!("{}: {}", members[*i].0, lits[*i])).collect();
            // (legal: a field given more than once, the last value wins)
            if t.chance(1, 4) {
                for _ in 0..1 + t.below(2) {
                    let i = t.below(n);
                    let at = t.below(fields.len() + 1);
                    fields.insert(at, format!("{}: {}", members[i].0, lits[i]));
                }
            }
            stmts.push(format!("{} := {} {{ {} }}", var, name, fields.join(", ")));
            for _ in 0..1 + t.below(3) {
                let i = t.below(n);
                stmts.push(format!("print({}.{})", var, members[i].0));
            }
        }
    }
    (decls, stmts)
}

fn valid_wide(t: &mut Tape) -> Built {
    let n = 2 + t.below(3);
    let (decls, stmts) = wide_valid(t, "", n);
    let mut s = String::new();
    let decls_first = t.bool();
    if decls_first {
        s.push_str(&decls);
    }
    s.push_str("start :: fn do\n");
    for st in &stmts {
        s.push_str(&format!("    {}\n", st));
    }
    s.push_str("end\n");
    if !decls_first {
        s.push_str(&decls);
    }
    Built { project: single(s), class: "valid-wide-decls", planted: 0 }
}

fn valid_multi_file(t: &mut Tape) -> Built {
    let mods = ["other", "third", "fourth"];
    let n = 2 + t.below(2);
    let mut list: Vec<(&str, String)> = Vec::new();
    let mut main = String::new();
    let mut body = Vec::new();
    for (i, m) in mods.iter().take(n).enumerate() {
        let mut s = String::new();
        // modules may import each other: later ones import earlier ones, sometimes the first one imports
        // the last one or main as well (cycles), sometimes two import the same third (diamonds)
        if i > 0 && t.chance(1, 3) {
            s.push_str(&format!("use {}\n", mods[i - 1]));
        }
        if i == 0 && t.chance(1, 5) {
            s.push_str(&format!("use {} as back\n", if t.bool() { "main" } else { mods[n - 1] }));
        }
        if i == 2 && t.chance(1, 3) {
            s.push_str("use other as also_other\n");
        }
        s.push_str(&format!("val{} :: {}\n", i, i + 10));
        s.push_str(&format!("fun{} :: fn x: int -> int do\n    ret x + val{}\nend\n", i, i));
        let nd = 1 + t.below(2);
        let (decls, _) = wide_valid(t, &format!("M{}", i), nd);
        s.push_str(&decls);
        if i > 0 && s.starts_with(&format!("use {}\n", mods[i - 1])) {
            s.push_str(&format!("via{} :: fn -> int do\n    ret {}.fun{}(1)\nend\n", i, mods[i - 1], i - 1));
        }
        list.push((m, s));
        match t.below(3) {
            0 => {
                main.push_str(&format!("use {}\n", m));
                body.push(format!("print({}.fun{}({}.val{}))", m, i, m, i));
            }
            1 => {
                main.push_str(&format!("use {} as ns{}\n", m, i));
                body.push(format!("print(ns{}.fun{}(2))", i, i));
            }
            _ => {
                main.push_str(&format!("from {} use (fun{}, val{})\n", m, i, i));
                body.push(format!("print(fun{}(val{}))", i, i));
            }
        }
    }
    let nd = 1 + t.below(2);
    let (decls, stmts) = wide_valid(t, "", nd);
    main.push_str(&decls);
    main.push_str("start :: fn do\n");
    for st in body.iter().chain(stmts.iter()) {
        main.push_str(&format!("    {}\n", st));
    }
    main.push_str("end\n");
    list.push(("main", main));
    Built { project: files(list), class: "valid-multi-file", planted: 0 }
}

fn valid_generated(t: &mut Tape) -> Built {
    let mut cfg = GenCfg::core(false);
    if !t.chance(1, 4) {
        cfg.max_decls = 4;
        cfg.decl_budget = 30;
        cfg.max_stmts = 5;
    }
    let p = Gen::new(t, cfg).program();
    let mut s = print_program(&p, &SurfacePlan::default()).text;
    if t.chance(1, 2) {
        let nd = 1 + t.below(3);
        let (decls, _) = wide_valid(t, "Xtra", nd);
        s.push_str(&decls);
    }
    Built { project: single(s), class: "valid-generated", planted: 0 }
}

// ------------------------------------------------------------------------------------------------
// several unresolved names with many near-miss candidates
// ------------------------------------------------------------------------------------------------

fn similar_names(t: &mut Tape) -> Built {
    let stem = *t.pick(&["ab", "val", "cnt", "foo", "item", "xs", "node", "s"]);
    let letters = ["d", "e", "f", "g", "h", "i", "j", "k"];
    let k = 3 + t.below(6);
    let mut order: Vec<usize> = (0..k).collect();
    for i in (1..k).rev() {
        let j = t.below(i + 1);
        order.swap(i, j);
    }
    let mut s = String::new();
    // candidates at equal edit distance 1 from `<stem>c`
    for i in &order {
        match t.below(3) {
            0 => s.push_str(&format!("{}{} :: {}\n", stem, letters[*i], i)),
            1 => s.push_str(&format!("{}{} := {}\n", stem, letters[*i], i)),
            _ => s.push_str(&format!("{}{} :: fn -> int do\n    ret {}\nend\n", stem, letters[*i], i)),
        }
    }
    // some at distance 2
    for i in 0..t.below(4) {
        s.push_str(&format!("{}{}x :: {}\n", stem, letters[i], i));
    }
    // candidates that enter the namespace through imports and namespace aliases (same edit distance)
    let imported = t.chance(1, 3);
    let mut cands = String::new();
    if imported {
        let extra = ["m", "n", "o", "p"];
        let n_imp = 1 + t.below(3);
        let names: Vec<String> = extra.iter().take(n_imp).map(|l| format!("{}{}", stem, l)).collect();
        for (i, n) in names.iter().enumerate() {
            cands.push_str(&format!("{} :: {}\n", n, i + 100));
        }
        if t.bool() {
            s = format!("from cands use ({})\n{}", names.join(", "), s);
        } else {
            s = format!("from cands use ({} as {}y)\nuse cands as {}w\n{}", names[0], stem, stem, s);
        }
    }
    // type-level candidates
    let type_level = t.chance(1, 3);
    if type_level {
        for l in ["d", "e", "f"].iter().take(2 + t.below(2)) {
            s.push_str(&format!("Fo{} :: blob {{ a: int }}\n", l));
        }
    }
    let uses = 1 + t.below(3);
    let mut planted = 0;
    for u in 0..uses {
        let missing = match u {
            0 => format!("{}c", stem),
            1 => format!("{}cc", stem),
            _ => format!("{}z", stem),
        };
        planted += 1;
        match t.below(4) {
            0 => s.push_str(&format!("user{} :: fn -> int do\n    ret {} + 1\nend\n", u, missing)),
            1 => s.push_str(&format!("user{} :: fn do\n    {}q := 1\n    {}r := 2\n    print({})\nend\n", u, stem, stem, missing)),
            2 => s.push_str(&format!("glob{} :: {} + 1\n", u, missing)),
            _ => {
                if type_level {
                    s.push_str(&format!("user{} :: fn p: Foc -> int do\n    ret 1\nend\n", u))
                } else {
                    s.push_str(&format!("user{} :: fn do\n    {} = 3\nend\n", u, missing))
                }
            }
        }
    }
    if t.bool() || imported {
        s.push_str(START);
    } else {
        s = format!("{}{}", START, s);
    }
    let project = if imported { files(vec![("main", s), ("cands", cands)]) } else { single(s) };
    Built { project, class: "similar-name-candidates", planted }
}

// ------------------------------------------------------------------------------------------------
// duplicates, imports, missing files, syntax errors, type errors
// ------------------------------------------------------------------------------------------------

fn shuffle<T>(t: &mut Tape, v: &mut Vec<T>) {
    for i in (1..v.len()).rev() {
        let j = t.below(i + 1);
        v.swap(i, j);
    }
}

fn def_form(t: &mut Tape, name: &str, k: usize) -> String {
    let cap = name.chars().next().map(|c| c.is_uppercase()).unwrap_or(false);
    if cap {
        match t.below(2) {
            0 => format!("{} :: blob {{ a: int }}\n", name),
            _ => format!("{} :: enum\n    P{},\n    Q{} int,\nend\n", name, k, k),
        }
    } else {
        match t.below(3) {
            0 => format!("{} :: {}\n", name, k),
            1 => format!("{} := \"{}\"\n", name, k),
            _ => format!("{} :: fn do\nend\n", name),
        }
    }
}

fn duplicates(t: &mut Tape) -> Built {
    let names = ["x", "y", "total", "Thing", "Kind", "run", "zed", "Wrap"];
    let k = 2 + t.below(5);
    let pos = pick_positions(t, names.len(), k);
    let mut stmts: Vec<String> = Vec::new();
    let mut planted = 0;
    for (n, p) in pos.iter().enumerate() {
        let copies = 2 + t.below(2);
        for c in 0..copies {
            stmts.push(def_form(t, names[*p], n * 4 + c));
        }
        planted += copies as u32 - 1;
    }
    stmts.push(START.to_string());
    let mut other = String::new();
    let with_import = t.chance(1, 3);
    if with_import {
        other.push_str("aa :: 1\nbb :: 2\n");
        match t.below(3) {
            0 => {
                stmts.push("use other\n".into());
                stmts.push("other :: 5\n".into());
            }
            1 => {
                stmts.push("from other use (aa, bb)\n".into());
                stmts.push("aa :: 7\n".into());
                stmts.push("bb := 8\n".into());
                planted += 1;
            }
            _ => {
                stmts.push("use other\n".into());
                stmts.push("use third as other\n".into());
            }
        }
        planted += 1;
    }
    shuffle(t, &mut stmts);
    let main: String = stmts.concat();
    let project = if with_import {
        files(vec![("main", main), ("other", other), ("third", "cc :: 3\n".into())])
    } else if t.chance(1, 4) {
        // the duplicates live in an imported file
        files(vec![("main", format!("use lib\n{}", START)), ("lib", main.replace(START, ""))])
    } else {
        single(main)
    };
    Built { project, class: "duplicate-definitions", planted }
}

const TYPE_ERR_FNS: &[&str] = &[
    "    x: int = \"s\"\n",
    "    1 + \"a\"\n",
    "    y := 1\n    y = \"b\"\n",
    "    takes2(1)\n",
    "    takes2(1, 2, 3)\n",
    "    q :: Pp { x: 1, zz: 2, yy: 3 }\n",
    "    q :: Pp { }\n",
    "    q :: Pp { yy: 1, x: \"s\", ww: 2 }\n",
    "    case Ee.Va do\n        Zz -> end\n        Yy -> end\n        else end\n    end\n",
    "    case Ee.Va do\n        Va -> end\n    end\n",
    "    e := Ee.Vb 1\n    case e do\n        Vb s -> print(s + \"x\") end\n        else end\n    end\n",
    "    k :: 1\n    k = 2\n",
    "    t :: (1, 2)\n    print(t[5])\n",
    "    p := Pp { x: 1, y: \"s\", z: 1.0 }\n    print(p.nope)\n    print(p.nada)\n",
    "    if 1 do\n        print(1)\n    end\n",
    "    l := [1, \"a\", 2.0]\n",
    "    print(not 1)\n",
    "    f :: fn a: int, b: str -> int do\n        ret a\n    end\n    f(\"s\", 1)\n",
];

fn indent4(body: &str) -> String {
    body.split_inclusive('\n').map(|l| format!("    {}", l)).collect()
}

fn type_errors(t: &mut Tape) -> Built {
    let k = 2 + t.below(5);
    let mut decls: Vec<String> = Vec::new();
    decls.push("Pp :: blob { x: int, y: str, z: float }\n".into());
    decls.push("Ee :: enum\n    Va,\n    Vb int,\n    Vc str,\n    Vd,\nend\n".into());
    decls.push("takes2 :: fn a: int, b: int -> int do\n    ret a + b\nend\n".into());
    let mut calls = String::new();
    for i in 0..k {
        let body = *t.pick(TYPE_ERR_FNS);
        match t.below(4) {
            0 => decls.push(format!("bad{} :: fn do\n{}end\n", i, body)),
            1 => decls.push(format!("bad{} :: fn n: int -> int do\n{}    ret n\nend\n", i, body)),
            2 => decls.push(format!("bad{} :: fn do\n    inner :: fn do\n{}    end\n    inner()\nend\n", i, indent4(body))),
            _ => decls.push(format!("gbad{} : int : \"text{}\"\n", i, i)),
        }
        if t.bool() {
            calls.push_str(&format!("    bad{}\n", i));
        }
    }
    // chains of dependencies between the erroneous globals change the initialisation order
    if t.chance(1, 3) {
        decls.push("chain1 :: chain2 + 1\nchain2 :: chain3 + \"s\"\nchain3 :: 1\n".into());
    }
    decls.push(format!("start :: fn do\n{}end\n", calls));
    shuffle(t, &mut decls);
    let src: String = decls.concat();
    let project = if t.chance(1, 4) {
        // half of the definitions in an imported module
        let cut = src.len() / 2;
        let cut = src[..cut].rfind("\nbad").map(|i| i + 1).unwrap_or(0);
        if cut > 0 && !src[..cut].contains("start ::") {
            files(vec![("main", format!("from lib use (Pp, Ee, takes2)\n{}", &src[cut..])), ("lib", src[..cut].to_string())])
        } else {
            single(src)
        }
    } else {
        single(src)
    };
    Built { project, class: "type-errors-in-functions", planted: k as u32 }
}

const SYNTAX_ERR_LINES: &[&str] = &[
    "p :: ) q :: ) r :: )\n",
    "x :: :: 1\nx :: :: 1\n",
    "use\n",
    "use other other\n",
    "x :: :: 1\n",
    "y := )\n",
    "Bl :: blob { a int }\n",
    "En :: enum x end\n",
    "lower :: blob {}\n",
    "self :: 1\n",
    "Dv :: enum\n    X,\n    X,\nend\n",
    "Df :: blob { a: int, a: str }\n",
    "end\n",
    "z :: 1 +\n",
    "w :: @\n",
    "v :: fn do\n    ret ret\nend\n",
    "u :: (1, 2\n",
    "from use x\n",
    "t :: fn a: -> do end\n",
    "s := \"unterminated\n",
    "r :: 1 2\n",
    "Bq :: blob { a: }\n",
];

fn syntax_errors(t: &mut Tape, avoid: bool) -> Built {
    let nfiles = 1 + t.below(3);
    let names = ["main", "other", "third"];
    let mut list: Vec<(&str, String)> = Vec::new();
    let mut planted = 0;
    for i in 0..nfiles {
        let mut parts: Vec<String> = Vec::new();
        if i == 0 {
            for n in names.iter().take(nfiles).skip(1) {
                parts.push(format!("use {}\n", n));
            }
        } else if i == 1 && nfiles == 3 && t.bool() {
            parts.push("use third\n".into());
        }
        let k = if nfiles == 1 { 2 + t.below(4) } else { t.below(4) };
        let mut rest: Vec<String> = Vec::new();
        for _ in 0..k {
            let mut l = *t.pick(SYNTAX_ERR_LINES);
            if avoid && (l.starts_with("Dv ::") || l.starts_with("Df ::")) {
                // known finding: a repeated member name is detected only now and then
                l = "z :: 1 +\n";
            }
            rest.push(l.to_string());
            planted += 1;
        }
        rest.push(format!("ok{} :: {}\n", i, i));
        if i == 0 {
            rest.push(START.to_string());
        }
        shuffle(t, &mut rest);
        parts.extend(rest);
        list.push((names[i], parts.concat()));
    }
    Built { project: files(list), class: "syntax-errors-multi-file", planted }
}

fn missing_files(t: &mut Tape) -> Built {
    let k = 1 + t.below(4);
    let mut parts: Vec<String> = Vec::new();
    let mut planted = 0;
    for i in 0..k {
        match t.below(4) {
            0 => parts.push(format!("use missing{}\n", i)),
            1 => parts.push(format!("use sub/missing{} as m{}\n", i, i)),
            2 => parts.push(format!("from missing{} use (a, b)\n", i)),
            _ => parts.push(format!("use /deep/er/missing{}\n", i)),
        }
        planted += 1;
    }
    let mut other = String::from("ok :: 1\n");
    // other errors on top
    match t.below(5) {
        0 => {}
        1 => {
            parts.push("bad :: :: 1\n".into());
            planted += 1;
        }
        2 => {
            parts.push("Aa :: blob { a: Foo }\n".into());
            planted += 1;
        }
        3 => {
            other.push_str("use missing_too\nuse missing_three\n");
            planted += 2;
        }
        _ => {
            other.push_str("oops :: )\n");
            planted += 1;
        }
    }
    parts.push("use other\n".into());
    shuffle(t, &mut parts);
    parts.push(START.to_string());
    Built { project: files(vec![("main", parts.concat()), ("other", other)]), class: "missing-files", planted }
}

fn import_errors(t: &mut Tape) -> Built {
    let other = "aa :: 1\nbb :: 2\nshared :: 3\nTy :: blob { a: int }\n";
    let third = "cc :: 1\nshared :: 4\nTy :: enum\n    A,\nend\n";
    let mut parts: Vec<String> = Vec::new();
    let mut planted = 0;
    let k = 1 + t.below(4);
    for _ in 0..k {
        match t.below(6) {
            0 => {
                let n = 2 + t.below(4);
                let names: Vec<String> = (0..n).map(|i| format!("nope{}", i)).collect();
                parts.push(format!("from other use ({})\n", names.join(", ")));
                planted += n as u32;
            }
            1 => {
                parts.push("from other use (shared)\nfrom third use (shared)\n".into());
                planted += 1;
            }
            2 => {
                parts.push("from other use (Ty)\nfrom third use (Ty)\n".into());
                planted += 1;
            }
            3 => {
                parts.push("from other use (aa as zz)\nfrom third use (cc as zz)\n".into());
                planted += 1;
            }
            4 => {
                parts.push("from other use (aa, missing1, bb, missing2)\n".into());
                planted += 2;
            }
            _ => {
                parts.push("use other as ns\nuse third as ns\n".into());
                planted += 1;
            }
        }
    }
    shuffle(t, &mut parts);
    parts.push(START.to_string());
    Built { project: files(vec![("main", parts.concat()), ("other", other.into()), ("third", third.into())]), class: "import-errors", planted }
}

// ------------------------------------------------------------------------------------------------
// corpus mutation
// ------------------------------------------------------------------------------------------------

fn corpus() -> &'static Vec<String> {
    static C: OnceLock<Vec<String>> = OnceLock::new();
    C.get_or_init(|| {
        let mut out = Vec::new();
        fn walk(d: &std::path::Path, out: &mut Vec<String>) {
            if let Ok(rd) = std::fs::read_dir(d) {
                let mut es: Vec<_> = rd.flatten().map(|e| e.path()).collect();
                es.sort();
                for p in es {
                    if p.is_dir() {
                        walk(&p, out);
                    } else if p.extension().map(|e| e == "sy").unwrap_or(false) {
                        if let Ok(s) = std::fs::read_to_string(&p) {
                            if s.len() < 4000 {
                                out.push(s);
                            }
                        }
                    }
                }
            }
        }
        let root = std::env::var("SYLT_REPO").unwrap_or_else(|_| "/repo".to_string());
        walk(&std::path::Path::new(&root).join("tests"), &mut out);
        if out.is_empty() {
            out.push("start :: fn do\n    print(1)\nend\n".to_string());
        }
        out
    })
}

const INSERT_SAFE: &[&str] = &[
    "Zq :: blob { a: int, b: str, c: float, d: bool }\n",
    "Ze :: enum\n    P,\n    Q int,\n    R str,\n    S (int, int),\nend\n",
    "zz1 :: 1\n",
    "start :: fn do\nend\n",
    "use missing_mod\n",
    "Zs :: blob { a: Foo, b: int, c: str }\n",
    "zz2 :: undefined_name + 1\n",
    "zz3 : int : \"s\"\n",
];
const INSERT_FREE: &[&str] = &[
    "Zz :: blob { a: Foo, b: Bar, c: Baz }\n",
    "Zv :: enum\n    A Foo,\n    B Bar,\n    C,\nend\n",
    "Zg :: blob { a: *X, b: *Y, c: int }\n",
    "Zh :: enum\n    A *X,\n    B *Y,\nend\n",
];

fn ident_spans(s: &str) -> Vec<(usize, usize)> {
    let b = s.as_bytes();
    let mut out = Vec::new();
    let mut i = 0;
    while i < b.len() {
        if b[i].is_ascii_alphabetic() || b[i] == b'_' {
            let st = i;
            while i < b.len() && (b[i].is_ascii_alphanumeric() || b[i] == b'_') {
                i += 1;
            }
            out.push((st, i));
        } else {
            i += 1;
        }
    }
    out
}

fn mutate(t: &mut Tape, src: &str, other: &str, avoid: bool) -> String {
    let mut s = src.to_string();
    let n = 1 + t.below(4);
    for _ in 0..n {
        let mut lines: Vec<String> = s.split('\n').map(|x| x.to_string()).collect();
        match t.below(8) {
            0 => {
                let a = t.below(lines.len());
                lines.remove(a);
                s = lines.join("\n");
            }
            1 => {
                let mut a = t.below(lines.len());
                if avoid {
                    // duplicating an indented line can repeat a member of a blob/enum (known finding)
                    while a > 0 && lines[a].starts_with(' ') {
                        a -= 1;
                    }
                }
                if !(avoid && lines[a].starts_with(' ')) {
                    let l = lines[a].clone();
                    lines.insert(a, l);
                }
                s = lines.join("\n");
            }
            2 => {
                let a = t.below(lines.len());
                let b = t.below(lines.len());
                lines.swap(a, b);
                s = lines.join("\n");
            }
            3 => {
                // insert a top-level declaration at a line that starts in column 0
                let tops: Vec<usize> = (0..lines.len()).filter(|i| !lines[*i].starts_with(' ')).collect();
                let at = if tops.is_empty() { 0 } else { tops[t.below(tops.len())] };
                let ins = if avoid || t.bool() { *t.pick(INSERT_SAFE) } else { *t.pick(INSERT_FREE) };
                lines.insert(at, ins.trim_end().to_string());
                s = lines.join("\n");
            }
            4 | 5 => {
                // replace an identifier by another identifier of the file / a near miss
                let ids = ident_spans(&s);
                if ids.len() >= 2 {
                    let a = ids[t.below(ids.len())];
                    let b = ids[t.below(ids.len())];
                    let mut rep = s[b.0..b.1].to_string();
                    if t.chance(1, 3) {
                        rep.push('x');
                    }
                    s.replace_range(a.0..a.1, &rep);
                }
            }
            6 => {
                // splice with another program
                let lb: Vec<&str> = other.split('\n').collect();
                let a = t.below(lines.len() + 1);
                let b = t.below(lb.len() + 1);
                let mut o: Vec<String> = lines[..a].to_vec();
                o.extend(lb[b..].iter().map(|x| x.to_string()));
                s = o.join("\n");
            }
            _ => {
                // swap a type keyword
                let ids = ident_spans(&s);
                let tys: Vec<(usize, usize)> = ids.into_iter().filter(|(a, b)| matches!(&s[*a..*b], "int" | "str" | "float" | "bool")).collect();
                if !tys.is_empty() {
                    let a = tys[t.below(tys.len())];
                    let rep = *t.pick(&["str", "int", "bool", "float", "Foo"]);
                    s.replace_range(a.0..a.1, rep);
                }
            }
        }
        if s.len() > 8192 {
            let mut end = 8192;
            while !s.is_char_boundary(end) {
                end -= 1;
            }
            s.truncate(end);
        }
    }
    s
}

fn corpus_mutation(t: &mut Tape, avoid: bool) -> Built {
    let c = corpus();
    let a = t.pick(c).clone();
    let b = t.pick(c).clone();
    let main = mutate(t, &a, &b, avoid);
    let project = if t.chance(1, 4) {
        let o = t.pick(c).clone();
        let o = if t.bool() { mutate(t, &o, &a, avoid) } else { o };
        files(vec![("main", format!("use other\n{}", main)), ("other", o)])
    } else {
        single(main)
    };
    Built { project, class: "corpus-mutation", planted: 0 }
}

// ------------------------------------------------------------------------------------------------

/// (class index into CLASSES, weight); the first entry is what an exhausted tape yields
const MIX: &[(usize, u32)] = &[(1, 8), (0, 6), (2, 6), (3, 9), (4, 9), (5, 8), (6, 8), (7, 7), (8, 7), (9, 6), (10, 7), (11, 6), (12, 4), (13, 5), (14, 8), (15, 6)];

pub fn build(t: &mut Tape, avoid: bool) -> Built {
    let ws: Vec<u32> = MIX.iter().map(|m| m.1).collect();
    let class = MIX[t.weighted(&ws)].0;
    build_class(t, avoid, class)
}

pub fn build_class(t: &mut Tape, avoid: bool, class: usize) -> Built {
    match class {
        0 => valid_generated(t),
        1 => valid_wide(t),
        2 => valid_multi_file(t),
        3 => decl_errors(t, avoid, 0),
        4 => decl_errors(t, avoid, 1),
        5 => decl_errors(t, avoid, 2),
        6 => decl_errors(t, avoid, 3),
        7 => decl_errors(t, avoid, 4),
        8 => similar_names(t),
        9 => duplicates(t),
        10 => type_errors(t),
        11 => syntax_errors(t, avoid),
        12 => missing_files(t),
        13 => import_errors(t),
        15 => Built { project: single(crate::c07::type_grammar(t)), class: "type-grammar", planted: 0 },
        _ => corpus_mutation(t, avoid),
    }
}

/// 20 fixed, unrelated projects ("how many compilations ran before")
pub fn unrelated() -> &'static Vec<Project> {
    static U: OnceLock<Vec<Project>> = OnceLock::new();
    U.get_or_init(|| {
        let mut out = Vec::new();
        for i in 0..20u64 {
            let mut x = 0x9E3779B97F4A7C15u64.wrapping_mul(i + 1);
            let bytes: Vec<u8> = (0..600)
                .map(|_| {
                    x ^= x << 13;
                    x ^= x >> 7;
                    x ^= x << 17;
                    (x >> 24) as u8
                })
                .collect();
            let mut u = arbitrary::Unstructured::new(&bytes);
            let mut t = Tape::new(&mut u);
            // template classes only (1..=13), never the GenAST generator or the corpus
            let class = 1 + (i as usize % 13);
            let mut b = build_class(&mut t, i % 2 == 0, class);
            // most of them without the standard library (cheap)
            b.project.std = i % 5 == 0;
            out.push(b.project);
        }
        out
    })
}
