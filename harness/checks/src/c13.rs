//! C13 — operators parse with the documented precedence and associativity (round trip + value).
//!
//! Cases are *own* expression trees (`E`), never the parser's AST. Every tree is rendered twice from the
//! documented table only — with the minimal parentheses the table requires and fully parenthesised — and
//! both texts go through the real `sylt_parser::tree`. The parsed expression (spans, `Parenthesis` nodes and
//! `AssignableKind::Expression` wrappers erased) must equal the generating tree for both renderings. For the
//! well-typed sub-family both renderings are also compiled and run; they must print what an independent
//! evaluation of the generating tree predicts.
//!
//! Where the table is silent the renderer writes parentheses in *both* renderings (see `min_text`):
//! unary next to `* /` on either side, unary applied to unary, unary applied to a `* /` node, a numeric
//! literal as the receiver of `.field` (lexical: `1.a`), and a then-branch that ends in a blob literal
//! (`} else` is rejected by the parser as "Parsed a blob not an if-statement" — Appendix A).
use arbitrary::Unstructured;
use serde::{Deserialize, Serialize};
use serde_json::{json, Value};
use std::collections::BTreeMap;
use std::path::Path;
use std::sync::atomic::{AtomicUsize, Ordering};
use sylt_parser::expression::ComparisonKind;
use sylt_parser::{Assignable, AssignableKind, Expression, ExpressionKind as EK, Statement, StatementKind, TypeAssignableKind};
use vcore::luarun::{run_lua, LuaOutcome, Terminal};
use vcore::{compile, guarded, hash64, Check, Found, Labels, Outcome, Plan, Project, RunCfg, Stats, Step, Tape, Tier, Verdict};

pub struct C13;
pub const CHECK: C13 = C13;
pub fn plan(t: Tier) -> Plan {
    Plan::new(t.pick(103_000, 3_060_000), 320)
}

// ------------------------------------------------------------------------------------------------
// the tree type
// ------------------------------------------------------------------------------------------------

#[derive(Clone, Copy, Debug, PartialEq, Eq, Serialize, Deserialize)]
pub enum B {
    Assert,
    Or,
    And,
    Eq,
    Ne,
    Lt,
    Le,
    Gt,
    Ge,
    Add,
    Sub,
    Mul,
    Div,
}
pub const ALL_BIN: [B; 13] = [B::Assert, B::Or, B::And, B::Eq, B::Ne, B::Lt, B::Le, B::Gt, B::Ge, B::Add, B::Sub, B::Mul, B::Div];
/// one or two operators per level (two where mixing inside a level matters for associativity)
pub const CLASS_BIN: [B; 9] = [B::Assert, B::Or, B::And, B::Eq, B::Lt, B::Add, B::Sub, B::Mul, B::Div];
const FACTOR: u8 = 6;

impl B {
    /// the documented table: `<=>` loosest (1), `or`, `and`, comparisons, `+ -`, `* /` tightest (6)
    pub fn level(self) -> u8 {
        match self {
            B::Assert => 1,
            B::Or => 2,
            B::And => 3,
            B::Eq | B::Ne | B::Lt | B::Le | B::Gt | B::Ge => 4,
            B::Add | B::Sub => 5,
            B::Mul | B::Div => FACTOR,
        }
    }
    pub fn text(self) -> &'static str {
        match self {
            B::Assert => "<=>",
            B::Or => "or",
            B::And => "and",
            B::Eq => "==",
            B::Ne => "!=",
            B::Lt => "<",
            B::Le => "<=",
            B::Gt => ">",
            B::Ge => ">=",
            B::Add => "+",
            B::Sub => "-",
            B::Mul => "*",
            B::Div => "/",
        }
    }
    pub fn class(self) -> &'static str {
        match self.level() {
            1 => "assert",
            2 => "or",
            3 => "and",
            4 => "comp",
            5 => "term",
            _ => "factor",
        }
    }
}

#[derive(Clone, Copy, Debug, PartialEq, Eq, Serialize, Deserialize)]
pub enum U {
    Neg,
    Not,
}
impl U {
    fn text(self) -> &'static str {
        match self {
            U::Neg => "-",
            U::Not => "not ",
        }
    }
}

#[derive(Clone, Debug, PartialEq, Serialize, Deserialize)]
pub enum E {
    // atoms
    Name(String),
    Int(i64),
    Float(f64),
    Str(String),
    Bool(bool),
    Nil,
    Tuple(Vec<E>),
    List(Vec<E>),
    /// `fn p.. -> do body end` (`fn do body end` without parameters)
    Lambda(Vec<String>, Box<E>),
    /// `if c do t else e end`
    If(Box<E>, Box<E>, Box<E>),
    /// `Name { f: e, .. }`
    Blob(String, Vec<(String, E)>),
    // operators
    Un(U, Box<E>),
    Bin(B, Box<E>, Box<E>),
    // postfix
    Call(Box<E>, Vec<E>),
    Index(Box<E>, i64),
    Field(Box<E>, String),
}

fn name(s: &str) -> E {
    E::Name(s.to_string())
}
fn bin(op: B, l: E, r: E) -> E {
    E::Bin(op, Box::new(l), Box::new(r))
}
fn un(op: U, x: E) -> E {
    E::Un(op, Box::new(x))
}

impl E {
    fn is_operator(&self) -> bool {
        matches!(self, E::Un(..) | E::Bin(..))
    }
    fn is_postfix(&self) -> bool {
        matches!(self, E::Call(..) | E::Index(..) | E::Field(..))
    }
    /// atomic for the purpose of "fully parenthesised": literals, names and self-delimiting forms
    fn is_atomic(&self) -> bool {
        !self.is_operator() && !self.is_postfix()
    }
    fn class(&self) -> &'static str {
        match self {
            E::Bin(op, ..) => op.class(),
            E::Un(..) => "unary",
            E::Call(..) | E::Index(..) | E::Field(..) => "postfix",
            _ => "atom",
        }
    }
    fn kind_label(&self) -> &'static str {
        match self {
            E::Name(_) => "name",
            E::Int(_) => "int",
            E::Float(_) => "float",
            E::Str(_) => "str",
            E::Bool(_) => "bool",
            E::Nil => "nil",
            E::Tuple(_) => "tuple",
            E::List(_) => "list",
            E::Lambda(..) => "lambda",
            E::If(..) => "if",
            E::Blob(..) => "blob",
            E::Un(U::Neg, _) => "neg",
            E::Un(U::Not, _) => "not",
            E::Bin(op, ..) => op.class(),
            E::Call(..) => "call",
            E::Index(..) => "index",
            E::Field(..) => "field",
        }
    }
    fn kids(&self) -> Vec<&E> {
        match self {
            E::Name(_) | E::Int(_) | E::Float(_) | E::Str(_) | E::Bool(_) | E::Nil => Vec::new(),
            E::Tuple(v) | E::List(v) => v.iter().collect(),
            E::Lambda(_, b) => vec![&**b],
            E::If(c, t, e) => vec![&**c, &**t, &**e],
            E::Blob(_, fs) => fs.iter().map(|(_, e)| e).collect(),
            E::Un(_, x) => vec![&**x],
            E::Bin(_, l, r) => vec![&**l, &**r],
            E::Call(f, args) => std::iter::once(&**f).chain(args.iter()).collect(),
            E::Index(x, _) | E::Field(x, _) => vec![&**x],
        }
    }
    fn kids_mut(&mut self) -> Vec<&mut E> {
        match self {
            E::Name(_) | E::Int(_) | E::Float(_) | E::Str(_) | E::Bool(_) | E::Nil => Vec::new(),
            E::Tuple(v) | E::List(v) => v.iter_mut().collect(),
            E::Lambda(_, b) => vec![&mut **b],
            E::If(c, t, e) => vec![&mut **c, &mut **t, &mut **e],
            E::Blob(_, fs) => fs.iter_mut().map(|(_, e)| e).collect(),
            E::Un(_, x) => vec![&mut **x],
            E::Bin(_, l, r) => vec![&mut **l, &mut **r],
            E::Call(f, args) => std::iter::once(&mut **f).chain(args.iter_mut()).collect(),
            E::Index(x, _) | E::Field(x, _) => vec![&mut **x],
        }
    }
    fn with_kid(&self, i: usize, new: E) -> E {
        let mut c = self.clone();
        if let Some(slot) = c.kids_mut().into_iter().nth(i) {
            *slot = new;
        }
        c
    }
    /// same node ignoring the children (variant, operator, payload, number of children)
    fn shallow_eq(&self, o: &E) -> bool {
        match (self, o) {
            (E::Tuple(a), E::Tuple(b)) | (E::List(a), E::List(b)) => a.len() == b.len(),
            (E::Lambda(p, _), E::Lambda(q, _)) => p == q,
            (E::If(..), E::If(..)) => true,
            (E::Blob(n, f), E::Blob(m, g)) => n == m && f.len() == g.len() && f.iter().zip(g).all(|(a, b)| a.0 == b.0),
            (E::Un(a, _), E::Un(b, _)) => a == b,
            (E::Bin(a, ..), E::Bin(b, ..)) => a == b,
            (E::Call(_, a), E::Call(_, b)) => a.len() == b.len(),
            (E::Index(_, a), E::Index(_, b)) => a == b,
            (E::Field(_, a), E::Field(_, b)) => a == b,
            (a, b) if a.kids().is_empty() && b.kids().is_empty() => a == b,
            _ => false,
        }
    }
    fn size(&self) -> usize {
        1 + self.kids().iter().map(|k| k.size()).sum::<usize>()
    }
    /// nesting depth of unary/binary operators
    fn op_depth(&self) -> usize {
        let k = self.kids().iter().map(|k| k.op_depth()).max().unwrap_or(0);
        k + if self.is_operator() { 1 } else { 0 }
    }
    fn visit<'a>(&'a self, f: &mut dyn FnMut(&'a E)) {
        f(self);
        for k in self.kids() {
            k.visit(f);
        }
    }
}

// ------------------------------------------------------------------------------------------------
// the two renderings (from the documented table only)
// ------------------------------------------------------------------------------------------------

fn paren(s: String) -> String {
    format!("({})", s)
}

/// Text of an atom / of the postfix part of a postfix node; `sub` renders a sub-expression that stands in a
/// position where precedence starts afresh (element, argument, field value, condition, branch, body).
fn atom_text(e: &E, sub: &dyn Fn(&E) -> String) -> String {
    let list = |v: &[E]| v.iter().map(|x| sub(x)).collect::<Vec<_>>().join(", ");
    match e {
        E::Name(n) => n.clone(),
        E::Int(i) => format!("{}", i),
        E::Float(f) => format!("{:?}", f),
        E::Str(s) => format!("\"{}\"", s),
        E::Bool(b) => format!("{}", b),
        E::Nil => "nil".into(),
        E::Tuple(v) if v.len() == 1 => format!("({},)", sub(&v[0])),
        E::Tuple(v) => format!("({})", list(v)),
        E::List(v) => format!("[{}]", list(v)),
        E::Lambda(ps, b) if ps.is_empty() => format!("fn do {} end", sub(b)),
        E::Lambda(ps, b) => format!("fn {} -> do {} end", ps.join(", "), sub(b)),
        E::If(c, t, f) => {
            let mut tt = sub(t);
            if tt.ends_with('}') {
                // `B { .. } else` is rejected by the parser on purpose (Appendix A): not a precedence question
                tt = paren(tt);
            }
            format!("if {} do {} else {} end", sub(c), tt, sub(f))
        }
        E::Blob(n, fs) if fs.is_empty() => format!("{} {{}}", n),
        E::Blob(n, fs) => format!("{} {{ {} }}", n, fs.iter().map(|(k, v)| format!("{}: {}", k, sub(v))).collect::<Vec<_>>().join(", ")),
        _ => unreachable!("not an atom"),
    }
}

fn postfix_suffix(e: &E, sub: &dyn Fn(&E) -> String) -> String {
    match e {
        E::Call(_, args) => format!("({})", args.iter().map(|x| sub(x)).collect::<Vec<_>>().join(", ")),
        E::Index(_, i) => format!("[{}]", i),
        E::Field(_, n) => format!(".{}", n),
        _ => unreachable!(),
    }
}
fn receiver(e: &E) -> &E {
    match e {
        E::Call(r, _) | E::Index(r, _) | E::Field(r, _) => r,
        _ => unreachable!(),
    }
}
/// `1.a` / `2.5.a` are a question for the tokenizer, not for the table: always parenthesised
fn lexical_receiver_paren(e: &E) -> bool {
    matches!(e, E::Field(r, _) if matches!(**r, E::Int(_) | E::Float(_)))
}

/// minimal parentheses: only what the table requires, plus the "table is silent" cases
pub fn min_text(e: &E) -> String {
    match e {
        E::Bin(op, l, r) => {
            let side = |c: &E, right: bool| -> String {
                let need = match c {
                    // looser child needs parentheses; equal level on the right because of left associativity
                    E::Bin(cop, ..) => {
                        if right {
                            cop.level() <= op.level()
                        } else {
                            cop.level() < op.level()
                        }
                    }
                    // unary binds tighter than `+ -`, comparisons, `and`, `or` (hence also `<=>`);
                    // the table is silent on unary next to `* /`: parenthesise
                    E::Un(..) => op.level() == FACTOR,
                    _ => false,
                };
                let s = min_text(c);
                if need {
                    paren(s)
                } else {
                    s
                }
            };
            format!("{} {} {}", side(l, false), op.text(), side(r, true))
        }
        E::Un(op, x) => {
            // operand that is a binary operator: required for levels below unary, silent for `* /`;
            // operand that is a unary operator: silent. Postfix and atoms bind tighter: no parentheses.
            let s = min_text(x);
            format!("{}{}", op.text(), if x.is_operator() { paren(s) } else { s })
        }
        E::Call(..) | E::Index(..) | E::Field(..) => {
            let r = receiver(e);
            let s = min_text(r);
            let rs = if r.is_operator() || lexical_receiver_paren(e) { paren(s) } else { s };
            format!("{}{}", rs, postfix_suffix(e, &min_text))
        }
        _ => atom_text(e, &min_text),
    }
}

fn full_sub(e: &E) -> String {
    if e.is_atomic() {
        full_inner(e)
    } else {
        paren(full_inner(e))
    }
}
fn full_inner(e: &E) -> String {
    match e {
        E::Bin(op, l, r) => format!("{} {} {}", full_sub(l), op.text(), full_sub(r)),
        E::Un(op, x) => format!("{}{}", op.text(), full_sub(x)),
        E::Call(..) | E::Index(..) | E::Field(..) => {
            let r = receiver(e);
            let rs = if lexical_receiver_paren(e) { paren(full_inner(r)) } else { full_sub(r) };
            format!("{}{}", rs, postfix_suffix(e, &full_sub))
        }
        _ => atom_text(e, &full_sub),
    }
}
/// every non-atomic sub-expression (the root included) in parentheses
pub fn full_text(e: &E) -> String {
    full_sub(e)
}

// ------------------------------------------------------------------------------------------------
// parser AST -> tree (spans, Parenthesis and AssignableKind::Expression erased)
// ------------------------------------------------------------------------------------------------

fn conv_body(b: &[Statement]) -> Result<E, String> {
    if b.len() != 1 {
        return Err(format!("block with {} statements", b.len()));
    }
    match &b[0].kind {
        StatementKind::StatementExpression { value } => conv(value),
        other => Err(format!("block statement is not an expression: {:?}", other).chars().take(120).collect()),
    }
}

pub fn conv(e: &Expression) -> Result<E, String> {
    let b2 = |op: B, a: &Expression, b: &Expression| -> Result<E, String> { Ok(bin(op, conv(a)?, conv(b)?)) };
    Ok(match &e.kind {
        EK::Parenthesis(x) => conv(x)?,
        EK::Get(a) => conv_ass(a)?,
        EK::Add(a, b) => b2(B::Add, a, b)?,
        EK::Sub(a, b) => b2(B::Sub, a, b)?,
        EK::Mul(a, b) => b2(B::Mul, a, b)?,
        EK::Div(a, b) => b2(B::Div, a, b)?,
        EK::AssertEq(a, b) => b2(B::Assert, a, b)?,
        EK::And(a, b) => b2(B::And, a, b)?,
        EK::Or(a, b) => b2(B::Or, a, b)?,
        EK::Comparison(a, k, b) => {
            let op = match k {
                ComparisonKind::Equals => B::Eq,
                ComparisonKind::NotEquals => B::Ne,
                ComparisonKind::Greater => B::Gt,
                ComparisonKind::GreaterEqual => B::Ge,
                ComparisonKind::Less => B::Lt,
                ComparisonKind::LessEqual => B::Le,
            };
            b2(op, a, b)?
        }
        EK::Neg(x) => un(U::Neg, conv(x)?),
        EK::Not(x) => un(U::Not, conv(x)?),
        EK::If(branches) => {
            if branches.len() != 2 || branches[0].condition.is_none() || branches[1].condition.is_some() {
                return Err(format!("if-expression with {} branches", branches.len()));
            }
            E::If(
                Box::new(conv(branches[0].condition.as_ref().unwrap())?),
                Box::new(conv_body(&branches[0].body)?),
                Box::new(conv_body(&branches[1].body)?),
            )
        }
        EK::Case { .. } => return Err("case-expression".into()),
        EK::Function { params, body, pure, .. } => {
            if *pure {
                return Err("pure function".into());
            }
            E::Lambda(params.iter().map(|(i, _)| i.name.clone()).collect(), Box::new(conv_body(body)?))
        }
        EK::Blob { blob, fields } => {
            let n = match &blob.kind {
                TypeAssignableKind::Read(i) => i.name.clone(),
                _ => return Err("qualified blob name".into()),
            };
            let mut fs = Vec::new();
            for (k, v) in fields {
                fs.push((k.clone(), conv(v)?));
            }
            E::Blob(n, fs)
        }
        EK::Tuple(v) => E::Tuple(v.iter().map(conv).collect::<Result<_, _>>()?),
        EK::List(v) => E::List(v.iter().map(conv).collect::<Result<_, _>>()?),
        EK::Float(f) => E::Float(*f),
        EK::Int(i) => E::Int(*i),
        EK::Str(s) => E::Str(s.clone()),
        EK::Bool(b) => E::Bool(*b),
        EK::Nil => E::Nil,
    })
}

fn conv_ass(a: &Assignable) -> Result<E, String> {
    Ok(match &a.kind {
        AssignableKind::Read(i) => E::Name(i.name.clone()),
        AssignableKind::Call(f, args) => E::Call(Box::new(conv_ass(f)?), args.iter().map(conv).collect::<Result<_, _>>()?),
        AssignableKind::Access(x, i) => E::Field(Box::new(conv_ass(x)?), i.name.clone()),
        AssignableKind::Index(x, i) => match &i.kind {
            EK::Int(n) => E::Index(Box::new(conv_ass(x)?), *n),
            _ => return Err("index is not an integer literal".into()),
        },
        AssignableKind::Expression(e) => conv(e)?,
        AssignableKind::Variant { .. } => return Err("variant construction".into()),
        AssignableKind::ArrowCall(..) => return Err("arrow call".into()),
    })
}

pub enum Parsed {
    Tree(E),
    /// the AST holds something outside the tree type
    Foreign(String),
    Syntax(String),
    Panic(String),
}

pub fn parse_text(text: &str) -> Parsed {
    let src = format!("q :: {}\n", text);
    let r = guarded(|| sylt_parser::tree(Path::new("/p/main.sy"), |_p: &Path| Ok(src.clone()), false));
    let ast = match r {
        Err((m, l)) => return Parsed::Panic(format!("{} at {}", m, l)),
        Ok(Err(errs)) => {
            let e = errs.first().map(vcore::err_info);
            return Parsed::Syntax(match e {
                Some(e) => format!("{} (line {} col {}..{})", vcore::first_line(&e.message), e.line, e.col_start, e.col_end),
                None => "no error reported".into(),
            });
        }
        Ok(Ok(ast)) => ast,
    };
    let stmts: Vec<&Statement> = ast.modules.iter().flat_map(|(_, m)| m.statements.iter()).filter(|s| !matches!(s.kind, StatementKind::EmptyStatement)).collect();
    if stmts.len() != 1 {
        return Parsed::Foreign(format!("{} top-level statements instead of 1", stmts.len()));
    }
    match &stmts[0].kind {
        StatementKind::Definition { value, .. } => match conv(value) {
            Ok(t) => Parsed::Tree(t),
            Err(e) => Parsed::Foreign(e),
        },
        _ => Parsed::Foreign("not a definition".into()),
    }
}

/// first node (pre-order) at which the two trees differ
fn first_diff<'a>(exp: &'a E, got: &'a E) -> Option<(&'a E, &'a E)> {
    if !exp.shallow_eq(got) {
        return Some((exp, got));
    }
    for (a, b) in exp.kids().into_iter().zip(got.kids()) {
        if let Some(d) = first_diff(a, b) {
            return Some(d);
        }
    }
    None
}

fn sanitize(s: &str) -> String {
    let cut: String = s.chars().take_while(|c| *c != '\'' && *c != '(' && *c != '"').take(48).collect();
    cut.trim().replace(' ', "-")
}

/// oracle (a) on one rendering
fn check_rendering(tree: &E, which: &str, text: &str) -> Result<(), (String, String)> {
    match parse_text(text) {
        Parsed::Tree(got) => match first_diff(tree, &got) {
            None => Ok(()),
            Some((e, g)) => Err((
                format!("C13/tree-mismatch/{}/{}-over-{}", which, e.class(), g.class()),
                format!(
                    "the {} rendering does not parse to the generating tree\ntext:      {}\nexpected:  {}\nparsed as: {}\nfirst difference: expected {} `{}`, parser has {} `{}`",
                    which,
                    text,
                    full_text(tree),
                    full_text(&got),
                    e.kind_label(),
                    min_text(e),
                    g.kind_label(),
                    min_text(g)
                ),
            )),
        },
        Parsed::Foreign(why) => Err((
            format!("C13/tree-mismatch/{}/foreign-node", which),
            format!("the {} rendering parses to a tree outside the operator set ({})\ntext: {}", which, why, text),
        )),
        Parsed::Syntax(msg) => Err((
            format!("C13/syntax-error/{}/{}", which, sanitize(&msg)),
            format!("the {} rendering is rejected by the parser: {}\ntext: {}\ntree: {}", which, msg, text, full_text(tree)),
        )),
        Parsed::Panic(msg) => Err((format!("C13/parser-panic/{}", which), format!("the parser panicked on the {} rendering: {}\ntext: {}", which, msg, text))),
    }
}

/// oracle (a): both renderings parse to the generating tree
fn check_tree(tree: &E, min: &str, full: &str) -> Result<(), (String, String)> {
    check_rendering(tree, "min", min)?;
    check_rendering(tree, "full", full)?;
    Ok(())
}

fn count_parens(s: &str) -> usize {
    s.bytes().filter(|b| *b == b'(').count()
}

/// distinct precedence levels (6 binary levels, unary, postfix) present in the tree
fn levels(tree: &E) -> Vec<&'static str> {
    let mut v: Vec<&'static str> = Vec::new();
    tree.visit(&mut |n| {
        let c = n.class();
        if c != "atom" && !v.contains(&c) {
            v.push(c);
        }
    });
    v
}

fn nontrivial(tree: &E, min: &str, full: &str) -> bool {
    count_parens(min) < count_parens(full) && levels(tree).len() >= 2
}

// ------------------------------------------------------------------------------------------------
// oracle (b): evaluation of the well-typed sub-family
// ------------------------------------------------------------------------------------------------

const PRELUDE: &str = "Qb :: blob { n: int, r: float, p: bool }\nqb :: Qb { n: 5, r: 0.5, p: true }\nqt :: (7, 2.5, false)\nqf :: fn x: int -> int do\n    ret x * 2 + 1\nend\n";

fn program(expr: &str) -> String {
    format!("{}start :: fn do\n    print({})\nend\n", PRELUDE, expr)
}

#[derive(Clone, Copy, Debug, PartialEq)]
enum V {
    I(i64),
    F(f64),
    B(bool),
}
enum Stop {
    AssertFailed,
    Nan,
    IllTyped(String),
}

fn ev(e: &E) -> Result<V, Stop> {
    let ill = |s: &str| Err(Stop::IllTyped(s.to_string()));
    let fl = |x: f64| if x.is_nan() { Err(Stop::Nan) } else { Ok(V::F(x)) };
    match e {
        E::Int(i) => Ok(V::I(*i)),
        E::Float(f) => Ok(V::F(*f)),
        E::Bool(b) => Ok(V::B(*b)),
        E::Index(r, i) if **r == name("qt") => match i {
            0 => Ok(V::I(7)),
            1 => Ok(V::F(2.5)),
            2 => Ok(V::B(false)),
            _ => ill("index"),
        },
        E::Field(r, f) if **r == name("qb") => match f.as_str() {
            "n" => Ok(V::I(5)),
            "r" => Ok(V::F(0.5)),
            "p" => Ok(V::B(true)),
            _ => ill("field"),
        },
        E::Call(f, args) if **f == name("qf") && args.len() == 1 => match ev(&args[0])? {
            V::I(x) => Ok(V::I(x.wrapping_mul(2).wrapping_add(1))),
            _ => ill("argument"),
        },
        E::If(c, t, f) => match ev(c)? {
            V::B(true) => ev(t),
            V::B(false) => ev(f),
            _ => ill("condition"),
        },
        E::Un(U::Neg, x) => match ev(x)? {
            V::I(i) => Ok(V::I(i.wrapping_neg())),
            V::F(f) => fl(-f),
            _ => ill("neg"),
        },
        E::Un(U::Not, x) => match ev(x)? {
            V::B(b) => Ok(V::B(!b)),
            _ => ill("not"),
        },
        E::Bin(B::And, l, r) => match ev(l)? {
            V::B(false) => Ok(V::B(false)),
            V::B(true) => match ev(r)? {
                V::B(b) => Ok(V::B(b)),
                _ => ill("and"),
            },
            _ => ill("and"),
        },
        E::Bin(B::Or, l, r) => match ev(l)? {
            V::B(true) => Ok(V::B(true)),
            V::B(false) => match ev(r)? {
                V::B(b) => Ok(V::B(b)),
                _ => ill("or"),
            },
            _ => ill("or"),
        },
        E::Bin(op, l, r) => {
            let a = ev(l)?;
            let b = ev(r)?;
            match (op, a, b) {
                (B::Add, V::I(x), V::I(y)) => Ok(V::I(x.wrapping_add(y))),
                (B::Sub, V::I(x), V::I(y)) => Ok(V::I(x.wrapping_sub(y))),
                (B::Mul, V::I(x), V::I(y)) => Ok(V::I(x.wrapping_mul(y))),
                (B::Div, V::I(x), V::I(y)) => fl(x as f64 / y as f64),
                (B::Add, V::F(x), V::F(y)) => fl(x + y),
                (B::Sub, V::F(x), V::F(y)) => fl(x - y),
                (B::Mul, V::F(x), V::F(y)) => fl(x * y),
                (B::Div, V::F(x), V::F(y)) => fl(x / y),
                (B::Eq, x, y) if same_type(x, y) => Ok(V::B(x == y)),
                (B::Ne, x, y) if same_type(x, y) => Ok(V::B(x != y)),
                (B::Assert, x, y) if same_type(x, y) => {
                    if x == y {
                        Ok(V::B(true))
                    } else {
                        Err(Stop::AssertFailed)
                    }
                }
                (B::Lt, V::I(x), V::I(y)) => Ok(V::B(x < y)),
                (B::Le, V::I(x), V::I(y)) => Ok(V::B(x <= y)),
                (B::Gt, V::I(x), V::I(y)) => Ok(V::B(x > y)),
                (B::Ge, V::I(x), V::I(y)) => Ok(V::B(x >= y)),
                (B::Lt, V::F(x), V::F(y)) => Ok(V::B(x < y)),
                (B::Le, V::F(x), V::F(y)) => Ok(V::B(x <= y)),
                (B::Gt, V::F(x), V::F(y)) => Ok(V::B(x > y)),
                (B::Ge, V::F(x), V::F(y)) => Ok(V::B(x >= y)),
                _ => ill("operand types"),
            }
        }
        _ => ill("form outside the evaluated family"),
    }
}
fn same_type(a: V, b: V) -> bool {
    matches!((a, b), (V::I(_), V::I(_)) | (V::F(_), V::F(_)) | (V::B(_), V::B(_)))
}
fn show(v: V) -> String {
    match v {
        V::I(i) => syltmodel::fmt::lua_int(i),
        V::F(f) => syltmodel::fmt::lua_float(f),
        V::B(b) => format!("{}", b),
    }
}

/// run one rendering; Ok((printed lines, "ok" | "assert-failed")) or a verdict to return
fn run_rendering(which: &str, text: &str, labels: &mut Labels) -> Result<(Vec<String>, &'static str), Verdict> {
    let src = program(text);
    let out = compile(&Project::single(src.clone()));
    let lua = match &out {
        Outcome::Accepted(b) => b,
        Outcome::Rejected { errors, .. } => {
            labels.add(format!("eval-rejected:{}:{}", errors[0].kind, errors[0].sub));
            if std::env::var("C13_SHOW_REJECTED").is_ok() {
                eprintln!("rejected {}: {}\n{}", which, out.short(), text);
            }
            return Err(Verdict::Discard(format!("eval-rejected-{}", errors[0].kind)));
        }
        Outcome::Panicked { .. } => return Err(Verdict::Discard("eval-compiler-panicked".into())),
    };
    match run_lua(lua, 2_000_000) {
        LuaOutcome::LoadError { class, .. } => Err(Verdict::Discard(format!("eval-lua-load-{}", class))),
        LuaOutcome::Ran(t) => match t.terminal {
            Terminal::Ok => Ok((t.lines, "ok")),
            Terminal::AssertFailed => Ok((t.lines, "assert-failed")),
            Terminal::OutOfBudget(_) => Err(Verdict::Discard("eval-lua-budget".into())),
            Terminal::Unreachable(_) => Err(Verdict::Violation {
                signature: format!("C13/value-mismatch/{}/unreachable", which),
                detail: format!("the {} rendering ended in <!>\ntext: {}", which, text),
            }),
            Terminal::LuaError { class, msg } => Err(Verdict::Violation {
                signature: format!("C13/value-mismatch/{}/lua-error-{}", which, class),
                detail: format!("the {} rendering of a well-typed expression ended in a Lua error: {}\ntext: {}", which, msg, text),
            }),
        },
    }
}

// ------------------------------------------------------------------------------------------------
// generators
// ------------------------------------------------------------------------------------------------

const NAMES: [&str; 6] = ["a", "b", "c", "f", "g", "t"];
const FIELDS: [&str; 3] = ["x", "y", "z"];
const FLOATS: [f64; 6] = [0.5, 1.5, 2.0, 2.5, 0.25, 10.0];
const STRS: [&str; 3] = ["s", "ab", ""];

fn gen_atom(t: &mut Tape, d: usize) -> E {
    let compound = if d >= 1 { 3 } else { 0 };
    let k = t.weighted(&[8, 4, 2, 2, 2, 1, compound, compound, compound, compound, compound]);
    let sd = (d.max(1) - 1).min(2);
    match k {
        0 => name(*t.pick(&NAMES)),
        1 => E::Int(t.below(10) as i64),
        2 => E::Float(*t.pick(&FLOATS)),
        3 => E::Str(t.pick(&STRS).to_string()),
        4 => E::Bool(t.bool()),
        5 => E::Nil,
        6 => {
            let n = t.below(4);
            E::Tuple((0..n).map(|_| gen_any(t, sd)).collect())
        }
        7 => {
            let n = t.below(4);
            E::List((0..n).map(|_| gen_any(t, sd)).collect())
        }
        8 => {
            let n = t.below(3);
            let ps = ["x", "y"][..n].iter().map(|s| s.to_string()).collect();
            E::Lambda(ps, Box::new(gen_any(t, sd)))
        }
        9 => E::If(Box::new(gen_any(t, sd)), Box::new(gen_any(t, sd)), Box::new(gen_any(t, sd))),
        _ => {
            let n = t.below(3);
            E::Blob("Bl".into(), (0..n).map(|i| (FIELDS[i].to_string(), gen_any(t, sd))).collect())
        }
    }
}

fn gen_postfix(t: &mut Tape, recv: E, d: usize) -> E {
    let sd = (d.max(1) - 1).min(2);
    match t.below(3) {
        0 => E::Field(Box::new(recv), t.pick(&FIELDS).to_string()),
        1 => E::Index(Box::new(recv), t.below(4) as i64),
        _ => {
            let n = t.below(3);
            E::Call(Box::new(recv), (0..n).map(|_| gen_any(t, sd)).collect())
        }
    }
}

/// any tree of nesting depth <= d over all operators and atom kinds
fn gen_any(t: &mut Tape, d: usize) -> E {
    if d == 0 || t.exhausted() {
        return gen_atom(t, 0);
    }
    match t.weighted(&[3, 12, 4, 4]) {
        0 => gen_atom(t, d),
        1 => {
            let op = *t.pick(&ALL_BIN);
            bin(op, gen_any(t, d - 1), gen_any(t, d - 1))
        }
        2 => un(if t.bool() { U::Not } else { U::Neg }, gen_any(t, d - 1)),
        _ => {
            let recv = gen_any(t, d - 1);
            let mut e = gen_postfix(t, recv, d);
            // chains
            while t.chance(1, 3) {
                e = gen_postfix(t, e, d);
            }
            e
        }
    }
}

#[derive(Clone, Copy, PartialEq)]
enum Ty {
    I,
    F,
    Bo,
}

/// well-typed by construction (ints with + - *, floats with / and + - *, comparisons, and/or/not, <=>)
fn gen_typed(t: &mut Tape, ty: Ty, d: usize, ifs: usize) -> E {
    let leaf = |t: &mut Tape| -> E {
        match ty {
            Ty::I => match t.weighted(&[6, 1, 1]) {
                0 => E::Int(t.below(10) as i64),
                1 => E::Index(Box::new(name("qt")), 0),
                _ => E::Field(Box::new(name("qb")), "n".into()),
            },
            Ty::F => match t.weighted(&[6, 1, 1]) {
                0 => E::Float(*t.pick(&FLOATS)),
                1 => E::Index(Box::new(name("qt")), 1),
                _ => E::Field(Box::new(name("qb")), "r".into()),
            },
            Ty::Bo => match t.weighted(&[6, 1, 1]) {
                0 => E::Bool(t.bool()),
                1 => E::Index(Box::new(name("qt")), 2),
                _ => E::Field(Box::new(name("qb")), "p".into()),
            },
        }
    };
    if d == 0 || t.exhausted() {
        return leaf(t);
    }
    let w_if = if ifs > 0 { 1 } else { 0 };
    let mk_if = |t: &mut Tape| -> E {
        let sd = (d - 1).min(2);
        E::If(Box::new(gen_typed(t, Ty::Bo, sd, ifs - 1)), Box::new(gen_typed(t, ty, sd, ifs - 1)), Box::new(gen_typed(t, ty, sd, ifs - 1)))
    };
    match ty {
        Ty::I => match t.weighted(&[2, 9, 2, 1, w_if]) {
            0 => leaf(t),
            1 => {
                let op = *t.pick(&[B::Add, B::Sub, B::Mul]);
                bin(op, gen_typed(t, Ty::I, d - 1, ifs), gen_typed(t, Ty::I, d - 1, ifs))
            }
            2 => un(U::Neg, gen_typed(t, Ty::I, d - 1, ifs)),
            3 => E::Call(Box::new(name("qf")), vec![gen_typed(t, Ty::I, (d - 1).min(2), ifs)]),
            _ => mk_if(t),
        },
        Ty::F => match t.weighted(&[2, 4, 3, 3, 1, w_if]) {
            0 => leaf(t),
            1 => bin(B::Div, gen_typed(t, Ty::I, d - 1, ifs), gen_typed(t, Ty::I, d - 1, ifs)),
            2 => bin(B::Div, gen_typed(t, Ty::F, d - 1, ifs), gen_typed(t, Ty::F, d - 1, ifs)),
            3 => {
                let op = *t.pick(&[B::Add, B::Sub, B::Mul]);
                bin(op, gen_typed(t, Ty::F, d - 1, ifs), gen_typed(t, Ty::F, d - 1, ifs))
            }
            4 => un(U::Neg, gen_typed(t, Ty::F, d - 1, ifs)),
            _ => mk_if(t),
        },
        Ty::Bo => match t.weighted(&[1, 4, 2, 1, 5, 2, 3, w_if]) {
            0 => leaf(t),
            1 => {
                let op = *t.pick(&[B::Eq, B::Ne, B::Lt, B::Le, B::Gt, B::Ge]);
                bin(op, gen_typed(t, Ty::I, d - 1, ifs), gen_typed(t, Ty::I, d - 1, ifs))
            }
            2 => {
                let op = *t.pick(&[B::Lt, B::Le, B::Gt, B::Ge, B::Eq, B::Ne]);
                bin(op, gen_typed(t, Ty::F, d - 1, ifs), gen_typed(t, Ty::F, d - 1, ifs))
            }
            3 => {
                let op = *t.pick(&[B::Eq, B::Ne]);
                bin(op, gen_typed(t, Ty::Bo, d - 1, ifs), gen_typed(t, Ty::Bo, d - 1, ifs))
            }
            4 => {
                let op = *t.pick(&[B::And, B::Or]);
                bin(op, gen_typed(t, Ty::Bo, d - 1, ifs), gen_typed(t, Ty::Bo, d - 1, ifs))
            }
            5 => un(U::Not, gen_typed(t, Ty::Bo, d - 1, ifs)),
            6 => {
                let ot = [Ty::I, Ty::Bo, Ty::F][t.weighted(&[3, 2, 1])];
                bin(B::Assert, gen_typed(t, ot, d - 1, ifs), gen_typed(t, ot, d - 1, ifs))
            }
            _ => mk_if(t),
        },
    }
}

// ------------------------------------------------------------------------------------------------
// shrinking
// ------------------------------------------------------------------------------------------------

/// all single-step simplifications of a tree: a node replaced by one of its children or by a literal
fn rewrites(e: &E) -> Vec<E> {
    let mut out: Vec<E> = Vec::new();
    let kids = e.kids();
    for k in &kids {
        out.push((*k).clone());
    }
    if !kids.is_empty() {
        for a in [name("a"), E::Int(1), E::Float(1.5), E::Bool(true)] {
            out.push(a);
        }
    } else if !matches!(e, E::Int(_) | E::Float(_) | E::Bool(_)) && *e != name("a") {
        out.push(name("a"));
    }
    for (i, k) in kids.iter().enumerate() {
        for r in rewrites(k) {
            out.push(e.with_kid(i, r));
        }
    }
    out
}

// ------------------------------------------------------------------------------------------------
// the check
// ------------------------------------------------------------------------------------------------

#[derive(Clone, Debug, Serialize, Deserialize)]
pub struct Case {
    pub tree: E,
    /// also compile + run both renderings (well-typed sub-family)
    pub eval: bool,
}

impl Check for C13 {
    type Case = Case;
    fn id(&self) -> &'static str {
        "C13"
    }

    fn generate(&self, u: &mut Unstructured, tier: Tier) -> Option<Case> {
        let mut t = Tape::new(u);
        let eval = t.chance(tier.pick(3, 2), 100);
        if eval {
            let ty = [Ty::Bo, Ty::I, Ty::F][t.weighted(&[5, 3, 2])];
            let d = 1 + t.below(6);
            Some(Case { tree: gen_typed(&mut t, ty, d, 2), eval })
        } else {
            let d = 1 + t.below(6);
            Some(Case { tree: gen_any(&mut t, d), eval })
        }
    }

    fn evaluate(&self, case: &Case, labels: &mut Labels) -> Verdict {
        let tree = &case.tree;
        let min = min_text(tree);
        let full = full_text(tree);
        if let Err((signature, detail)) = check_tree(tree, &min, &full) {
            return Verdict::Violation { signature, detail };
        }
        // classification
        let mut kinds: Vec<&'static str> = Vec::new();
        let mut silent = false;
        let mut chain = false;
        tree.visit(&mut |n| {
            let k = n.kind_label();
            if !kinds.contains(&k) {
                kinds.push(k);
            }
            match n {
                E::Bin(op, l, r) if op.level() == FACTOR && (matches!(**l, E::Un(..)) || matches!(**r, E::Un(..))) => silent = true,
                E::Un(_, x) if matches!(**x, E::Un(..)) || matches!(**x, E::Bin(o, ..) if o.level() == FACTOR) => silent = true,
                _ => {}
            }
            if n.is_postfix() && receiver(n).is_postfix() {
                chain = true;
            }
        });
        for k in &kinds {
            labels.add(format!("has:{}", k));
        }
        if silent {
            labels.add("table-silent-parenthesised");
        }
        if chain {
            labels.add("postfix-chain");
        }
        let lv = levels(tree).len();
        labels.add(format!("levels:{}", lv.min(6)));
        labels.add(format!("depth:{}", tree.op_depth().min(7)));
        let nt = nontrivial(tree, &min, &full);

        if case.eval {
            labels.add("eval");
            let expected: (Vec<String>, &'static str) = match ev(tree) {
                Ok(v) => (vec![show(v)], "ok"),
                Err(Stop::AssertFailed) => (Vec::new(), "assert-failed"),
                Err(Stop::Nan) => return Verdict::Discard("eval-nan".into()),
                Err(Stop::IllTyped(_)) => return Verdict::Discard("eval-ill-typed".into()),
            };
            labels.add(format!("eval-expect:{}", expected.1));
            for (which, text) in [("min", &min), ("full", &full)] {
                let got = match run_rendering(which, text, labels) {
                    Ok(g) => g,
                    Err(v) => return v,
                };
                if got.1 != expected.1 || got.0 != expected.0 {
                    let class = if got.1 != expected.1 { "terminal" } else { "printed" };
                    return Verdict::Violation {
                        signature: format!("C13/value-mismatch/{}/{}", which, class),
                        detail: format!(
                            "the {} rendering does not evaluate to what the tree denotes\ntext: {}\ntree: {}\nexpected: {:?} then {}\nobserved: {:?} then {}",
                            which, text, full, expected.0, expected.1, got.0, got.1
                        ),
                    };
                }
            }
            labels.add("eval-agreed");
        }
        Verdict::Pass { nontrivial: nt }
    }

    fn simplify_at(&self, case: &Case, idx: usize) -> Step<Case> {
        match rewrites(&case.tree).into_iter().nth(idx) {
            Some(t) => Step::Candidate(Case { tree: t, eval: case.eval }),
            None => Step::End,
        }
    }

    fn sample(&self, case: &Case) -> Value {
        json!({ "minimal": min_text(&case.tree), "full": full_text(&case.tree), "evaluated": case.eval })
    }

    fn rule(&self) -> String {
        "cases: own expression trees over the 13 binary operators, unary -/not, postfix call/index/field and all atom kinds \
         (int/float/str/bool/nil literals, names, tuple, list, lambda, if-expression, blob instantiation): (1) exhaustive enumeration \
         of all trees up to the operator depth given in `exhaustive_*`, (2) tape-driven random trees up to nesting depth 6, of which a \
         few per cent come from a type-directed generator and are also compiled and run. Each tree is rendered with the minimal \
         parentheses the documented table requires (parentheses are kept where the table is silent: unary next to * /, unary of unary) \
         and fully parenthesised; oracle: both parse (sylt_parser::tree, spans and Parenthesis erased) to the generating tree, and for \
         evaluated cases both print the value / fail the assertion the reference evaluation of the tree predicts; \
         non-trivial = the minimal rendering has fewer parentheses than the full one and the tree has >= 2 distinct precedence levels \
         (6 binary levels, unary, postfix); distinct by hash of the case (enumerated trees are distinct by construction)"
            .into()
    }

    fn assumptions(&self) -> Vec<String> {
        vec![
            "`unary binds tighter than + -, comparisons and the boolean operators` is read as also covering `<=>` (looser than `or`)".into(),
            "the table is silent on unary next to * / and on unary applied to unary: parentheses are written in both renderings there".into(),
            "self-delimiting forms (tuple, list, `fn .. end`, `if .. end`, blob literal) count as atoms".into(),
            "evaluation: int = wrapping i64, / yields float, IEEE doubles printed with %.14g (+.0), and/or short-circuit, a <=> b yields true or fails the assertion; NaN results are discarded".into(),
            "mini-Lua (harness/minilua) agrees with Lua 5.3 on the subset the emitter uses (validated by ./check selftest)".into(),
        ]
    }

    fn health(&self, s: &Stats) -> Result<(), String> {
        if s.evaluations < 5_000 {
            return Ok(());
        }
        let random = s.evaluations - s.extra.get("exhaustive_trees_total").and_then(|v| v.as_u64()).unwrap_or(0);
        if random == 0 {
            return Ok(());
        }
        let frac = |l: &str| s.label(l) as f64 / random as f64;
        for k in ["assert", "or", "and", "comp", "term", "factor", "neg", "not", "call", "index", "field"] {
            if frac(&format!("has:{}", k)) < 0.10 {
                return Err(format!("operator class `{}` appears in only {:.1}% of the random trees", k, 100.0 * frac(&format!("has:{}", k))));
            }
        }
        for k in ["name", "int", "float", "str", "bool", "nil", "tuple", "list", "lambda", "if", "blob"] {
            if frac(&format!("has:{}", k)) < 0.01 {
                return Err(format!("atom kind `{}` appears in only {:.2}% of the random trees", k, 100.0 * frac(&format!("has:{}", k))));
            }
        }
        if frac("postfix-chain") < 0.02 || frac("table-silent-parenthesised") < 0.02 {
            return Err("postfix chains / table-silent cases are (nearly) absent".into());
        }
        let ev = s.label("eval");
        if ev >= 200 {
            let agreed = s.label("eval-agreed");
            if (agreed as f64) < 0.85 * ev as f64 {
                return Err(format!("only {} of {} evaluated cases were accepted and run (discards: {:?})", agreed, ev, s.discards));
            }
            if s.label("eval-expect:assert-failed") == 0 || s.label("eval-expect:ok") == 0 {
                return Err("evaluated cases do not cover both outcomes (value printed / assertion failed)".into());
            }
        }
        if (s.nontrivial as f64) < 0.3 * s.evaluations as f64 {
            return Err(format!("only {} of {} cases are non-trivial", s.nontrivial, s.evaluations));
        }
        Ok(())
    }

    fn extra_phase(&self, cfg: &RunCfg, stats: &mut Stats) -> Vec<Found> {
        let mut found: BTreeMap<String, (usize, String, String, Value)> = BTreeMap::new();
        let mut total = 0u64;
        let mut failed = 0u64;
        let mut total_nt = 0u64;
        let mut describe: Vec<Value> = Vec::new();

        // bound 1 (both tiers): all trees of operator depth <= 2 over all 13 binary + 2 unary operators and 4 atoms
        let atoms_q = vec![
            name("a"),
            E::Int(1),
            E::Call(Box::new(name("f")), vec![name("x")]),
            E::If(Box::new(name("c")), Box::new(name("x")), Box::new(name("y"))),
        ];
        let r = enumerate(&atoms_q, &ALL_BIN, 2, cfg.workers.max(1));
        describe.push(json!({"operator_depth_max": 2, "binary_operators": 13, "unary_operators": 2,
            "atoms": atoms_q.iter().map(min_text).collect::<Vec<_>>(), "trees": r.total, "nontrivial": r.nontrivial}));
        total += r.total;
        failed += r.failed;
        total_nt += r.nontrivial;
        merge_found(&mut found, r.found);
        let mut samples = r.samples;
        samples.truncate(1);

        // three pinned, evaluated examples (smoke test of oracle (b); one becomes an evidence sample)
        let i = |n: i64| E::Int(n);
        let pinned = vec![
            bin(B::Sub, bin(B::Sub, bin(B::Add, i(1), bin(B::Mul, i(2), i(3))), i(4)), i(5)),
            bin(
                B::Or,
                bin(B::And, bin(B::Lt, bin(B::Div, bin(B::Div, E::Float(7.0), E::Float(2.0)), E::Float(2.0)), E::Float(2.0)), un(U::Not, E::Bool(false))),
                E::Bool(false),
            ),
            bin(B::Assert, bin(B::Eq, bin(B::Sub, i(2), i(3)), un(U::Neg, i(1))), E::Bool(true)),
        ];
        for (k, tree) in pinned.into_iter().enumerate() {
            let case = Case { tree, eval: true };
            let mut l = Labels::default();
            stats.evaluations += 1;
            match self.evaluate(&case, &mut l) {
                Verdict::Pass { nontrivial } => {
                    stats.passed += 1;
                    if nontrivial {
                        stats.nontrivial += 1;
                        stats.distinct_nontrivial.insert(hash64(&("C13-pinned", k)));
                    }
                    if k == 1 {
                        let mut v = self.sample(&case);
                        v["value"] = json!(ev(&case.tree).ok().map(show));
                        samples.push(v);
                    }
                }
                Verdict::Discard(r) => {
                    *stats.discards.entry(format!("pinned-{}", r)).or_default() += 1;
                }
                Verdict::Violation { signature, detail } => {
                    let case_json = serde_json::to_value(&case).unwrap_or(Value::Null);
                    let mut one = BTreeMap::new();
                    one.insert(signature, (case.tree.size(), min_text(&case.tree), detail, case_json));
                    merge_found(&mut found, one);
                }
            }
        }

        if cfg.tier == Tier::Thorough {
            // bound 2: depth <= 3 over one/two operators per level and one atom
            let atoms_t = vec![name("a")];
            let r = enumerate(&atoms_t, &CLASS_BIN, 3, cfg.workers.max(1));
            describe.push(json!({"operator_depth_max": 3, "binary_operators": CLASS_BIN.iter().map(|b| b.text()).collect::<Vec<_>>(),
                "unary_operators": 2, "atoms": ["a"], "trees": r.total, "nontrivial": r.nontrivial}));
            total += r.total;
            failed += r.failed;
            total_nt += r.nontrivial;
            merge_found(&mut found, r.found);
        }

        stats.evaluations += total;
        stats.passed += total - failed;
        stats.nontrivial += total_nt;
        // enumerated trees are pairwise distinct by construction; keys are synthetic (capped to keep the set small)
        let cap = total_nt.min(2_000_000);
        for i in 0..cap {
            stats.distinct_nontrivial.insert(hash64(&("C13-enumerated", i)));
        }
        stats.extra.insert("exhaustive".into(), json!(true));
        stats.extra.insert("exhaustive_bounds".into(), json!(describe));
        stats.extra.insert("exhaustive_trees_total".into(), json!(total));
        stats.extra.insert("exhaustive_nontrivial_total".into(), json!(total_nt));
        stats.extra.insert("exhaustive_distinct_counted".into(), json!(cap));
        // keep room for enumerated samples next to the random ones
        stats.samples.truncate(5 - samples.len().min(2));
        for s in samples.drain(..) {
            if stats.samples.len() < 5 {
                stats.samples.push(s);
            }
        }
        // one root cause shows up under several operator-class pairs: report the four smallest reproductions
        let mut all: Vec<(String, (usize, String, String, Value))> = found.into_iter().collect();
        all.sort_by(|a, b| (a.1 .0, &a.1 .1, &a.0).cmp(&(b.1 .0, &b.1 .1, &b.0)));
        stats.extra.insert("exhaustive_failing_signatures".into(), json!(all.len()));
        all.truncate(4);
        all.into_iter().map(|(signature, (_, _, detail, case_json))| Found { signature, detail, case_json }).collect()
    }
}

struct EnumResult {
    total: u64,
    failed: u64,
    nontrivial: u64,
    /// signature -> (size, text, detail, case) of the smallest failing tree
    found: BTreeMap<String, (usize, String, String, Value)>,
    samples: Vec<Value>,
}

fn merge_found(into: &mut BTreeMap<String, (usize, String, String, Value)>, from: BTreeMap<String, (usize, String, String, Value)>) {
    for (k, v) in from {
        match into.get(&k) {
            Some(old) if (old.0, &old.1) <= (v.0, &v.1) => {}
            _ => {
                into.insert(k, v);
            }
        }
    }
}

/// all trees of operator depth <= d
fn all_trees(atoms: &[E], bins: &[B], d: usize) -> Vec<E> {
    let mut cur: Vec<E> = atoms.to_vec();
    for _ in 0..d {
        let mut next: Vec<E> = atoms.to_vec();
        for op in [U::Neg, U::Not] {
            for x in &cur {
                next.push(un(op, x.clone()));
            }
        }
        for op in bins {
            for l in &cur {
                for r in &cur {
                    next.push(bin(*op, l.clone(), r.clone()));
                }
            }
        }
        cur = next;
    }
    cur
}

/// Enumerates every tree of operator depth <= d (d >= 1) and applies oracle (a); the top level is split into
/// work items (one per unary operator, one per (binary operator, left operand)) spread over threads.
fn enumerate(atoms: &[E], bins: &[B], d: usize, threads: usize) -> EnumResult {
    let lower = all_trees(atoms, bins, d - 1);
    let n = lower.len();
    // items: 0 = the atoms, 1..=2 = unary operators, then bins.len() * n binary items
    let n_items = 3 + bins.len() * n;
    let next = AtomicUsize::new(0);
    let results: Vec<EnumResult> = std::thread::scope(|s| {
        let handles: Vec<_> = (0..threads)
            .map(|_| {
                std::thread::Builder::new()
                    .stack_size(64 << 20)
                    .spawn_scoped(s, || {
                        let mut res = EnumResult { total: 0, failed: 0, nontrivial: 0, found: BTreeMap::new(), samples: Vec::new() };
                        let one = |tree: &E, res: &mut EnumResult| {
                            res.total += 1;
                            let min = min_text(tree);
                            let full = full_text(tree);
                            match check_tree(tree, &min, &full) {
                                Ok(()) => {
                                    if nontrivial(tree, &min, &full) {
                                        res.nontrivial += 1;
                                    }
                                }
                                Err((sig, detail)) => {
                                    res.failed += 1;
                                    let key = (tree.size(), min.clone());
                                    let better = match res.found.get(&sig) {
                                        Some(old) => (key.0, &key.1) < (old.0, &old.1),
                                        None => true,
                                    };
                                    if better {
                                        let case = serde_json::to_value(Case { tree: tree.clone(), eval: false }).unwrap_or(Value::Null);
                                        res.found.insert(sig, (key.0, key.1, detail, case));
                                    }
                                }
                            }
                        };
                        loop {
                            let item = next.fetch_add(1, Ordering::Relaxed);
                            if item >= n_items {
                                break;
                            }
                            if item == 0 {
                                for a in atoms {
                                    one(a, &mut res);
                                }
                            } else if item <= 2 {
                                let op = if item == 1 { U::Neg } else { U::Not };
                                for x in &lower {
                                    one(&un(op, x.clone()), &mut res);
                                }
                            } else {
                                let k = item - 3;
                                let op = bins[k / n];
                                let l = &lower[k % n];
                                for r in &lower {
                                    let tree = bin(op, l.clone(), r.clone());
                                    if k == 7 * n / 11 && res.samples.is_empty() && r.op_depth() + 1 == d && nontrivial(&tree, &min_text(&tree), &full_text(&tree)) {
                                        res.samples.push(json!({"minimal": min_text(&tree), "full": full_text(&tree), "evaluated": false, "enumerated": true}));
                                    }
                                    one(&tree, &mut res);
                                }
                            }
                        }
                        res
                    })
                    .expect("spawn")
            })
            .collect();
        handles.into_iter().map(|h| h.join().expect("enumeration thread died")).collect()
    });
    let mut out = EnumResult { total: 0, failed: 0, nontrivial: 0, found: BTreeMap::new(), samples: Vec::new() };
    for r in results {
        out.total += r.total;
        out.failed += r.failed;
        out.nontrivial += r.nontrivial;
        merge_found(&mut out.found, r.found);
        out.samples.extend(r.samples);
    }
    out.samples.sort_by_key(|v| v.to_string());
    out.samples.truncate(2);
    out
}
