// dev tool: find generated programs whose reference run ends with a given stop kind
use arbitrary::Unstructured;
use syltmodel::gen::{Gen, GenCfg};
use syltmodel::print::{print_program, Plan};
use vcore::Tape;
fn main() {
    let want = std::env::args().nth(1).unwrap_or("stack".into());
    let mut st = 0x9e3779b97f4a7c15u64;
    for i in 0..2000 {
        let tape: Vec<u8> = (0..2600).map(|_| { st ^= st << 13; st ^= st >> 7; st ^= st << 17; (st >> 24) as u8 }).collect();
        let mut u = Unstructured::new(&tape);
        let mut t = Tape::new(&mut u);
        let p = Gen::new(&mut t, GenCfg::core(false)).program();
        let r = syltmodel::interp::run_program(&p, 200_000);
        if let Some(s) = &r.stop {
            if format!("{:?}", s).contains(&want) {
                println!("// case {} stop {:?} steps {}\n{}", i, s, r.steps, print_program(&p, &Plan::default()).text);
                return;
            }
        }
    }
}
