// dev tool: generate programs, print them, compile them, report acceptance
use arbitrary::Unstructured;
use syltmodel::gen::{Gen, GenCfg};
use syltmodel::print::{print_program, Plan};
use vcore::{compile, Outcome, Project, Tape};

fn main() {
    let args: Vec<String> = std::env::args().collect();
    let n: u64 = args.get(1).and_then(|s| s.parse().ok()).unwrap_or(200);
    let show: u64 = args.get(2).and_then(|s| s.parse().ok()).unwrap_or(0);
    let tape_len: usize = args.get(3).and_then(|s| s.parse().ok()).unwrap_or(1500);
    let mut st = 0x9e3779b97f4a7c15u64;
    let mut acc = 0;
    let mut rej = std::collections::BTreeMap::<String, (u64, String)>::new();
    let mut lens = 0usize;
    for i in 0..n {
        let tape: Vec<u8> = (0..tape_len)
            .map(|_| {
                st ^= st << 13;
                st ^= st >> 7;
                st ^= st << 17;
                (st >> 24) as u8
            })
            .collect();
        let mut u = Unstructured::new(&tape);
        let mut t = Tape::new(&mut u);
        let g = Gen::new(&mut t, GenCfg::core(false));
        let p = g.program();
        if std::env::var("PROBE_TRACE").is_ok() { eprintln!("gen {} done, vars={} ", i, p.vars.len()); }
        let r = syltmodel::interp::run_program(&p, 200_000);
        if std::env::var("PROBE_TRACE").is_ok() { eprintln!("interp {} done steps={}", i, r.steps); }
        let printed = print_program(&p, &Plan::default());
        lens += printed.text.len();
        if let Ok(d) = std::env::var("PROBE_DUMP") { if d.parse::<u64>().ok() == Some(i) { std::fs::write("/tmp/probe_dump.sy", &printed.text).unwrap(); eprintln!("dumped"); std::process::exit(0);} }
        let proj = Project::single(printed.text.clone());
        let out = vcore::on_big_stack(256, move || compile(&proj));
        if i < show {
            println!("=========== program {} ===========\n{}", i, printed.text);
            println!("--- ref out: {:?} stop={:?} amb={} nan={} steps={}", r.out, r.stop, r.ambiguous, r.nan_seen, r.steps);
            println!("--- compile: {}", out.short());
        }
        match &out {
            Outcome::Accepted(_) => acc += 1,
            other => {
                let key = match other {
                    Outcome::Rejected { errors, .. } => format!("{}:{}:{}", errors[0].kind, errors[0].sub, vcore::first_line(&errors[0].message)),
                    Outcome::Panicked { message, location, .. } => format!("PANIC {} {}", location, message),
                    _ => unreachable!(),
                };
                let key: String = key.chars().take(90).collect();
                if let Ok(d) = std::env::var("PROBE_SAVE") { let _ = std::fs::create_dir_all(&d); let _ = std::fs::write(format!("{}/rej_{}.sy", d, i), format!("// {}\n{}", out.short(), printed.text)); }
                let ent = rej.entry(key).or_insert((0, String::new()));
                ent.0 += 1;
                if ent.1.is_empty() {
                    let line = match other {
                        Outcome::Rejected { errors, .. } => errors[0].line,
                        _ => 0,
                    };
                    let lines: Vec<&str> = printed.text.lines().collect();
                    let lo = line.saturating_sub(3);
                    let hi = (line + 1).min(lines.len());
                    ent.1 = format!("line {}:\n{}", line, lines[lo..hi].join("\n"));
                }
            }
        }
    }
    println!("accepted {}/{}  avg len {}", acc, n, lens / n as usize);
    for (k, (c, ex)) in rej {
        println!("--- {} x {}\n{}", c, k, ex);
    }
}
