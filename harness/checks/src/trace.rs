//! Shared differential oracle: reference interpreter trace == mini-Lua trace of the emitted chunk.
use crate::common::*;
use vcore::luarun::{run_lua, LuaOutcome, Terminal};
use vcore::{compile, Labels, Outcome, Project, Verdict};

pub struct TraceEval {
    pub verdict: Verdict,
    /// reference run (when the case got that far)
    pub reference: Option<syltmodel::interp::RunResult>,
    pub lua: Option<Vec<u8>>,
}

/// `id` prefixes the signatures; returns Pass{nontrivial:false} for the caller to refine.
pub fn trace_eval(id: &str, case: &ProgCase, labels: &mut Labels, thorough: bool) -> TraceEval {
    let r = reference(&case.prog, thorough);
    let done = |v: Verdict, r: Option<syltmodel::interp::RunResult>, lua: Option<Vec<u8>>| TraceEval { verdict: v, reference: r, lua };
    if r.ambiguous {
        return done(Verdict::Discard("order-ambiguous".into()), None, None);
    }
    if r.nan_seen {
        return done(Verdict::Discard("nan-printed".into()), None, None);
    }
    if r.unprintable_seen {
        return done(Verdict::Discard("unprintable-printed".into()), None, None);
    }
    let printed = render(&case.prog, &case.plan);
    let expected = match expected_trace(&r, &printed) {
        Ok(t) => t,
        Err(e) => {
            if e.starts_with("ref-dynerror") {
                labels.add("ref-dynerror");
            }
            let short: String = e.chars().take(40).collect();
            return done(Verdict::Discard(short.split(':').next().unwrap_or("ref").to_string()), None, None);
        }
    };
    let out = compile(&Project::single(printed.text.clone()));
    let lua = match &out {
        Outcome::Accepted(b) => b.clone(),
        Outcome::Rejected { errors, bytes_written } => {
            if *bytes_written > 0 {
                return done(
                    Verdict::Violation {
                        signature: format!("{}/rejected-but-wrote-lua", id),
                        detail: format!("{} bytes of Lua written although compilation failed: {}", bytes_written, out.short()),
                    },
                    None,
                    None,
                );
            }
            labels.add(format!("rejected:{}:{}", errors[0].kind, errors[0].sub));
            if let Ok(d) = std::env::var("SAVE_REJECTED") {
                let _ = std::fs::create_dir_all(&d);
                let h = vcore::hash64(&printed.text);
                let _ = std::fs::write(
                    format!("{}/rej_{:x}.sy", d, h),
                    format!("// {} col {}..{}\n{}", out.short(), errors[0].col_start, errors[0].col_end, printed.text),
                );
            }
            return done(Verdict::Discard("rejected".into()), None, None);
        }
        Outcome::Panicked { .. } => {
            labels.add("compiler-panicked");
            return done(Verdict::Discard("compiler-panicked".into()), None, None);
        }
    };
    labels.add("accepted");
    let got = match run_lua(&lua, r.steps * 60 + 400_000) {
        LuaOutcome::LoadError { class, msg, line } => {
            return done(
                Verdict::Violation {
                    signature: format!("{}/lua-load/{}", id, class),
                    detail: format!("emitted chunk does not load: {} (chunk line {})\n--- source ---\n{}", msg, line, printed.text),
                },
                Some(r),
                Some(lua),
            );
        }
        LuaOutcome::Ran(t) => t,
    };
    if let Terminal::OutOfBudget(w) = &got.terminal {
        return done(Verdict::Discard(format!("lua-budget-{}", w)), None, None);
    }
    if let Some((kind, what)) = diff_traces(&expected, &got) {
        return done(
            Verdict::Violation {
                signature: format!("{}/trace/{}", id, kind),
                detail: format!("{}\n--- source ---\n{}", what, printed.text),
            },
            Some(r),
            Some(lua),
        );
    }
    for c in cov_labels(&r) {
        labels.add(c);
    }
    done(Verdict::Pass { nontrivial: false }, Some(r), Some(lua))
}
