//! C03 — definite type mismatches are rejected at compile time (planted-fault search).
//!
//! Case = a well-typed generated base program (GenAST, core profile) + ONE mismatch from the catalogue
//! (`c03_cat.rs`) planted at a generated placement (`syltmodel::plant`). The replay file stores the *planted*
//! program; evaluation finds the raw node again (`c03_loc.rs`), derives the unplanted base (raw statement
//! deleted / raw expression replaced by a literal of its type) and the **legal twin** (raw text swapped for a
//! well-typed text of the same nominal type) and compiles all three:
//!   base rejected      -> discard `base-rejected`
//!   twin rejected      -> discard `twin-rejected/<family>` (the placement itself is illegal)
//!   planted Accepted   -> violation `C03/accepted/<kind>/<how the value is used>`
//!   planted Rejected with Lua bytes written -> violation `C03/wrote-lua-on-error`
//!   planted Rejected, >= 1 error, 0 bytes   -> pass
//!   planted panicked   -> discard (C07's business), labelled
//! Two defects of /repo were found with this check while it was built and are fixed there since (25e04d4: unary `-`
//! never checked its operand when the value was dropped or sat in a tuple; 02a5b83: a `ret` of the wrong type below an
//! `if` without `else` was never compared with the declared return type). Both spellings stay in the catalogue at full
//! weight (kinds `neg-non-number`, `ret-in-if`); there is no known-finding avoidance switch at present.
//! Dev switches: `C03_CENSUS=1` turns `accepted` violations into passes labelled `leak:<kind>:<use>:<placement>` (to
//! see the whole matrix at once), `C03_SAVE_LEAK=DIR` / `C03_SAVE_TWIN=DIR` dump those programs / rejected twins.
use crate::common::*;
use arbitrary::Unstructured;
use serde::{Deserialize, Serialize};
use std::collections::BTreeMap;
use syltmodel::ast::*;
use syltmodel::gen::{Gen, GenCfg};
use syltmodel::plant;
use syltmodel::print::Plan as SurfacePlan;
use vcore::{compile, Check, Labels, Outcome, Plan, Project, Stats, Step, Tape, Tier, Verdict};

#[path = "c03_cat.rs"]
mod cat;
#[path = "c03_loc.rs"]
mod loc;

use cat::{Env, Form, Sel, P};

pub struct C03;
pub const CHECK: C03 = C03;
pub fn plan(t: Tier) -> Plan {
    let mut p = Plan::new(t.pick(20_000, 200_000), t.pick(1800, 3000));
    // the first structural shrink step already reduces a failing case to "the plant alone in `start`";
    // long tape shrinking (three compiles per attempt) buys nothing
    p.max_shrink_iters = 40;
    p
}

#[derive(Clone, Serialize, Deserialize)]
pub struct Case {
    /// the planted program (a raw node carries `bad`)
    pub prog: ProgCase,
    pub kind: String,
    /// exact text of the planted raw node
    pub bad: String,
    /// text of the legal twin (same site, well typed, same nominal type)
    pub good: String,
    /// text that turns the planted program back into an unplanted one; None = delete the raw statement
    pub base: Option<String>,
    /// the raw node is an expression (`EKind::Raw`) / a statement (`Stmt::Raw`)
    pub is_expr: bool,
    /// how the mismatching expression is embedded: wrapper name, `statement`, `replaced`, `globalinit`
    pub embed: String,
    /// compiled as an imported module (`/p/lib.sy` used from `/p/main.sy`)
    pub module: bool,
    /// how the site was chosen: stmt-site | expr-site | new-unused-fn | new-global
    pub mode: String,
    /// placement reported by `syltmodel::plant` for the chosen site (cross-checked against c03_loc)
    #[serde(default)]
    pub site_placement: String,
}

const MODULE_MAIN: &str = "use lib\nstart :: fn do\n    lib.start()\nend\n";

fn project(src: String, module: bool) -> Project {
    if !module {
        return Project::single(src);
    }
    let mut files = BTreeMap::new();
    files.insert("/p/lib.sy".to_string(), src);
    files.insert("/p/main.sy".to_string(), MODULE_MAIN.to_string());
    Project { files, main: "/p/main.sy".into(), std: true, require: None }
}

fn supported_site_ty(t: &Ty) -> bool {
    match t {
        Ty::Int | Ty::Float | Ty::Str | Ty::Bool => true,
        Ty::List(i) => P::of(i).is_some(),
        Ty::Tuple(ts) => ts.len() == 2 && ts[0] == Ty::Int && (ts[1] == Ty::Int || ts[1] == Ty::Bool),
        _ => false,
    }
}

fn default_text(t: &Ty) -> String {
    match t {
        Ty::Int => "0".into(),
        Ty::Float => "0.0".into(),
        Ty::Str => "\"\"".into(),
        Ty::Bool => "false".into(),
        Ty::List(_) => "[]".into(),
        Ty::Tuple(ts) => format!("({})", ts.iter().map(default_text).collect::<Vec<_>>().join(", ")),
        _ => "0".into(),
    }
}

/// top-level declarations the planted text refers to (part of the plant): the blob `Zqb` and the annotated
/// helper functions `zqg<r> :: pu zqa: int, zqb: str -> <r>`
fn add_helpers(prog: &mut Program, text: &str) {
    if text.contains("Zqb") && !prog.blobs.iter().any(|b| b.name == "Zqb") {
        prog.blobs.push(BlobDecl {
            name: "Zqb".into(),
            fields: vec![FieldDecl { name: "zf".into(), ty: Ty::Int }, FieldDecl { name: "zg".into(), ty: Ty::Str }],
        });
    }
    if text.contains("Zqs") && !prog.blobs.iter().any(|b| b.name == "Zqs") {
        prog.blobs.push(BlobDecl { name: "Zqs".into(), fields: vec![FieldDecl { name: "zf".into(), ty: Ty::Int }] });
    }
    // `Zqo` has members whose type is the blob `Zqp` declared *after* it (directly and as a type argument)
    if (text.contains("Zqo") || text.contains("Zqd")) && !prog.blobs.iter().any(|b| b.name == "Zqo") {
        // (`Zqo` mentions it only as a type argument, `Zqd` only directly)
        let at = prog.blobs.len();
        prog.blobs.push(BlobDecl { name: "Zqo".into(), fields: vec![FieldDecl { name: "zi".into(), ty: Ty::Maybe(Box::new(Ty::Blob(at + 2))) }] });
        prog.blobs.push(BlobDecl { name: "Zqd".into(), fields: vec![FieldDecl { name: "zd".into(), ty: Ty::Blob(at + 2) }] });
        prog.blobs.push(BlobDecl { name: "Zqp".into(), fields: vec![FieldDecl { name: "zx".into(), ty: Ty::Int }] });
    }
    for r in cat::PRIMS {
        let name = cat::gfn_name(r);
        if text.contains(name) && !prog.vars.iter().any(|v| v.name == name) {
            let fty = Ty::Fn(vec![Ty::Int, Ty::Str], Box::new(r.ty()), true);
            let f = prog.new_var(name.to_string(), fty.clone(), VarKind::Global, false);
            let a = prog.new_var("zqa".into(), Ty::Int, VarKind::Param, false);
            let b = prog.new_var("zqb".into(), Ty::Str, VarKind::Param, false);
            let value = match r {
                P::Int => var(prog, a),
                P::Str => var(prog, b),
                P::Float => float("1.5"),
                P::Bool => boolean(true),
            };
            let def = FnDef { params: vec![a, b], ret: r.ty(), body: Block { stmts: vec![], value: Some(Box::new(value)) }, pure: true };
            prog.globals.insert(0, Global { var: f, mutable: false, value: e(fty, EKind::Lambda(Box::new(def))) });
        }
    }
}

/// the smallest program that keeps the plant's kind and value use: the plant alone in `start` (first shrink step)
fn minimal_program(case: &Case) -> Option<Program> {
    let l = loc::find(&case.prog.prog, &case.bad, case.is_expr)?;
    let mut p = Program::default();
    let sty = Ty::Fn(vec![], Box::new(Ty::Void), false);
    let mut body = Block::default();
    if !case.is_expr {
        if case.kind == "ret-enclosing" {
            return None;
        }
        body.stmts.push(Stmt::Raw(case.bad.clone()));
    } else if case.embed == "replaced" {
        let raw = e(Ty::Int, EKind::Raw(case.bad.clone()));
        if l.value_unused {
            body.stmts.push(Stmt::Expr(raw));
        } else if l.in_tuple {
            body.stmts.push(Stmt::Expr(e(Ty::Tuple(vec![Ty::Int, Ty::Int]), EKind::Tuple(vec![raw, int(0)]))));
        } else {
            return None;
        }
    } else {
        let v = p.new_var("zqv".into(), Ty::Int, VarKind::Global, false);
        p.globals.push(Global { var: v, mutable: false, value: e(Ty::Int, EKind::Raw(case.bad.clone())) });
    }
    let start = p.new_var("start".into(), sty.clone(), VarKind::Global, false);
    let def = FnDef { params: vec![], ret: Ty::Void, body, pure: false };
    p.globals.push(Global { var: start, mutable: false, value: e(sty, EKind::Lambda(Box::new(def))) });
    add_helpers(&mut p, &case.bad);
    add_helpers(&mut p, &case.good);
    if p == case.prog.prog {
        return None;
    }
    Some(p)
}

fn stmt_class(p: &Program, s: &plant::StmtSite) -> String {
    match s.ctx.placement {
        plant::Placement::FnBody => {
            if s.ctx.global_is_start {
                "fnbody-start".into()
            } else if plant::global_is_used(p, s.ctx.global) {
                "fnbody-used".into()
            } else {
                "fnbody-unused".into()
            }
        }
        other => loc::placement_name(other).to_string(),
    }
}

struct Chosen {
    plant: cat::Plant,
    /// final raw text (wrapped) and its twin
    bad: String,
    good: String,
    embed: String,
}

/// kinds that have a spelling for this site (probed on a copy of the choice source), minus the forbidden ones
fn available(want: Option<&Ty>, env: &Env, forbid: &[&str], sel: &Sel) -> Vec<&'static str> {
    cat::ALL_KINDS
        .iter()
        .copied()
        .filter(|k| !forbid.contains(k))
        .filter(|k| match cat::make(k, want, env, &mut sel.clone()) {
            Some(p) => match (&p.form, want) {
                (Form::Expr(Some(t)), Some(w)) => t == w,
                (_, Some(_)) => false,
                (Form::Stmt, None) => env.stmts,
                (Form::Expr(_), None) => true,
            },
            None => false,
        })
        .collect()
}

/// choose a kind uniformly among those with a spelling for a statement-level site (or a global initialiser when
/// `env.stmts` is false) and, for expression plants, a wrapper
fn choose_stmt_level(env: &Env, forbid: &[&str], sel: &mut Sel) -> Option<Chosen> {
    let kinds = available(None, env, forbid, sel);
    if kinds.is_empty() {
        return None;
    }
    let kind = *sel.pick(&kinds);
    let p = cat::make(kind, None, env, sel)?;
    Some(match p.form.clone() {
        Form::Stmt => Chosen { bad: p.bad.clone(), good: p.good.clone(), embed: "statement".into(), plant: p },
        Form::Expr(_) => {
            if env.stmts {
                let ws: Vec<&str> =
                    cat::WRAPPERS.iter().filter(|(_, impure)| !(*impure && env.pure_)).map(|(w, _)| *w).collect();
                let w = *sel.pick(&ws);
                Chosen { bad: cat::wrap(w, &p.bad, env.pure_), good: cat::wrap(w, &p.good, env.pure_), embed: w.into(), plant: p }
            } else {
                let w = *sel.pick(&["globalinit", "tuple-element", "list-element"]);
                Chosen { bad: cat::wrap_expr(w, &p.bad), good: cat::wrap_expr(w, &p.good), embed: w.into(), plant: p }
            }
        }
    })
}

fn choose_expr_level(ty: &Ty, l: &loc::Loc, sel: &mut Sel) -> Option<Chosen> {
    if l.placement == "condition" && *ty == Ty::Bool && sel.chance(1, 3) {
        let p = cat::cond_literal(sel);
        return Some(Chosen { bad: format!("({})", p.bad), good: format!("({})", p.good), embed: "replaced".into(), plant: p });
    }
    let env = Env { pure_: l.in_pure, ret: None, stmts: false };
    let kinds = available(Some(ty), &env, &[], sel);
    if kinds.is_empty() {
        return None;
    }
    let kind = *sel.pick(&kinds);
    let p = cat::make(kind, Some(ty), &env, sel)?;
    Some(Chosen { bad: format!("({})", p.bad), good: format!("({})", p.good), embed: "replaced".into(), plant: p })
}

fn pick_class<'m, T>(m: &'m BTreeMap<String, Vec<T>>, sel: &mut Sel) -> Option<(&'m String, &'m Vec<T>)> {
    if m.is_empty() {
        return None;
    }
    let i = sel.below(m.len());
    m.iter().nth(i)
}

const MARKER: &str = "zq_marker_zq";

struct Built {
    c: Chosen,
    mode: &'static str,
    is_expr: bool,
    base: Option<String>,
    site_placement: String,
}

impl C03 {
    fn build(&self, base: Program, module: bool, sel: &mut Sel) -> Option<Case> {
        let mut prog = base;
        let mode = match sel.below(20) {
            0..=9 => 0,
            10..=16 => 1,
            17..=18 => 2,
            _ => 3,
        };
        let (stmt_sites, expr_sites) = plant::sites(&prog);
        let mut built: Option<Built> = None;

        if mode == 1 {
            let mut classes: BTreeMap<String, Vec<usize>> = BTreeMap::new();
            for (i, s) in expr_sites.iter().enumerate() {
                if supported_site_ty(&s.ty) {
                    classes.entry(loc::placement_name(s.ctx.placement).to_string()).or_default().push(i);
                }
            }
            if let Some((cl, idxs)) = pick_class(&classes, sel) {
                let idx = idxs[sel.below(idxs.len())];
                let site = &expr_sites[idx];
                let mut q = plant::replace_expr(&prog, idx, e(site.ty.clone(), EKind::Raw(MARKER.into())));
                if let Some(l) = loc::find(&q, MARKER, true) {
                    if let Some(c) = choose_expr_level(&site.ty, &l, sel) {
                        loc::apply(&mut q, MARKER, true, loc::Action::SetText(c.bad.clone()));
                        prog = q;
                        let base_text = format!("({})", default_text(&site.ty));
                        built = Some(Built { c, mode: "expr-site", is_expr: true, base: Some(base_text), site_placement: cl.clone() });
                    }
                }
            }
        }
        if mode == 2 {
            // a new top-level function nobody calls, the plant at a chosen nesting inside it
            let pure_ = sel.chance(1, 3);
            let fn_ret = if sel.chance(1, 2) { Some(*sel.pick(&cat::PRIMS)) } else { None };
            let nesting = sel.below(6);
            let env = Env { pure_, ret: if nesting == 4 { None } else { fn_ret }, stmts: true };
            if let Some(c) = choose_stmt_level(&env, &[], sel) {
                let raw = Stmt::Raw(c.bad.clone());
                let inner: Vec<Stmt> = match nesting {
                    0 | 5 => vec![raw],
                    1 => vec![Stmt::Expr(e(Ty::Void, EKind::If(vec![(boolean(true), Block { stmts: vec![raw], value: None })], None)))],
                    2 => vec![Stmt::Loop { cond: None, body: Block { stmts: vec![raw, Stmt::Break], value: None } }],
                    3 => vec![Stmt::Block(Block { stmts: vec![raw], value: None })],
                    _ => {
                        let hty = Ty::Fn(vec![], Box::new(Ty::Void), pure_);
                        let h = prog.new_var("zqh".into(), hty.clone(), VarKind::Local, false);
                        let def = FnDef { params: vec![], ret: Ty::Void, body: Block { stmts: vec![raw], value: None }, pure: pure_ };
                        vec![Stmt::Def { var: h, mutable: false, value: e(hty, EKind::Lambda(Box::new(def))) }]
                    }
                };
                let ret_ty = fn_ret.map(|p| p.ty()).unwrap_or(Ty::Void);
                let value = fn_ret.map(|p| {
                    Box::new(match p {
                        P::Int => int(1),
                        P::Float => float("1.0"),
                        P::Str => string("a"),
                        P::Bool => boolean(true),
                    })
                });
                let fty = Ty::Fn(vec![], Box::new(ret_ty.clone()), pure_);
                let f = prog.new_var("zqf".into(), fty.clone(), VarKind::Global, false);
                let def = FnDef { params: vec![], ret: ret_ty, body: Block { stmts: inner, value }, pure: pure_ };
                let at = prog.globals.len().saturating_sub(1);
                prog.globals.insert(at, Global { var: f, mutable: false, value: e(fty, EKind::Lambda(Box::new(def))) });
                built = Some(Built { c, mode: "new-unused-fn", is_expr: false, base: None, site_placement: String::new() });
            }
        }
        if mode == 3 {
            let env = Env { pure_: false, ret: None, stmts: false };
            if let Some(c) = choose_stmt_level(&env, &[], sel) {
                let ty = match &c.plant.form {
                    Form::Expr(Some(t)) if c.embed == "globalinit" => t.clone(),
                    _ => Ty::Int,
                };
                let mutable = sel.chance(1, 2);
                let v = prog.new_var("zqv".into(), ty.clone(), VarKind::Global, mutable);
                let at = prog.globals.len().saturating_sub(1);
                prog.globals.insert(at, Global { var: v, mutable, value: e(ty, EKind::Raw(c.bad.clone())) });
                built = Some(Built { c, mode: "new-global", is_expr: true, base: Some("0".into()), site_placement: "globalinit".into() });
            }
        }
        if built.is_none() {
            // mode 0, and the fallback of the other modes
            let mut classes: BTreeMap<String, Vec<usize>> = BTreeMap::new();
            for (i, s) in stmt_sites.iter().enumerate() {
                classes.entry(stmt_class(&prog, s)).or_default().push(i);
            }
            let (_, idxs) = pick_class(&classes, sel)?;
            let idx = idxs[sel.below(idxs.len())];
            let site = &stmt_sites[idx];
            let mut q = plant::insert_stmt(&prog, idx, Stmt::Raw(MARKER.into()));
            loc::find(&q, MARKER, false)?;
            let env = Env { pure_: site.ctx.in_pure, ret: P::of(&site.ctx.ret), stmts: true };
            let mut c = choose_stmt_level(&env, &[], sel)?;
            // an expression statement at the end of a branch would become the branch's value: mostly keep it inside
            if matches!(site.ctx.placement, plant::Placement::Branch | plant::Placement::CaseArm) && site.pos == site.block_len && sel.chance(3, 4) {
                c.bad.push_str("\nzq0 :: 0");
                c.good.push_str("\nzq0 :: 0");
            }
            loc::apply(&mut q, MARKER, false, loc::Action::SetText(c.bad.clone()));
            prog = q;
            let pl = loc::placement_name(site.ctx.placement).to_string();
            built = Some(Built { c, mode: "stmt-site", is_expr: false, base: None, site_placement: pl });
        }
        let Built { c, mode: mode_name, is_expr, base: base_text, site_placement } = built?;
        add_helpers(&mut prog, &c.bad);
        add_helpers(&mut prog, &c.good);
        let plan = SurfacePlan::default();
        let source = render(&prog, &plan).text;
        Some(Case {
            prog: ProgCase { prog, plan, source },
            kind: c.plant.kind.to_string(),
            bad: c.bad,
            good: c.good,
            base: base_text,
            is_expr,
            embed: c.embed,
            module,
            mode: mode_name.to_string(),
            site_placement,
        })
    }
}

fn err_class(o: &Outcome) -> String {
    match o {
        Outcome::Rejected { errors, .. } if !errors.is_empty() => {
            if errors[0].sub.is_empty() {
                errors[0].kind.clone()
            } else {
                format!("{}:{}", errors[0].kind, errors[0].sub)
            }
        }
        Outcome::Rejected { .. } => "no-error".into(),
        Outcome::Panicked { .. } => "panic".into(),
        Outcome::Accepted(_) => "accepted".into(),
    }
}

impl Check for C03 {
    type Case = Case;
    fn id(&self) -> &'static str {
        "C03"
    }

    fn generate(&self, u: &mut Unstructured, tier: Tier) -> Option<Case> {
        let mut t = Tape::new(u);
        // plant choices are drawn before the base program so that a short tape does not pin them to 0
        let mut sel = Sel { bytes: (0..40).map(|_| t.byte()).collect(), i: 0 };
        let module = sel.chance(1, 6);
        let cfg = GenCfg::core(tier == Tier::Thorough);
        let base = Gen::new(&mut t, cfg).program();
        self.build(base, module, &mut sel)
    }

    fn evaluate(&self, case: &Case, labels: &mut Labels) -> Verdict {
        let planted = &case.prog.prog;
        let l = match loc::find(planted, &case.bad, case.is_expr) {
            Some(l) => l,
            None => return Verdict::Discard("plant-missing".into()),
        };
        // ---- classification
        let gname = planted.var(l.global).name.clone();
        let region = if !l.global_is_fn {
            "global-init"
        } else if gname == "start" {
            "start"
        } else if plant::global_is_used(planted, l.global) {
            "used-fn"
        } else {
            "unused-fn"
        };
        let placement: String = if l.placement == "fnbody" { format!("fnbody-{}", region) } else { l.placement.to_string() };
        let use_class: &str = if case.is_expr && case.embed == "replaced" {
            if l.value_unused {
                "unused-expression"
            } else if l.in_tuple {
                "tuple-element"
            } else {
                l.placement
            }
        } else if case.embed == "globalinit" {
            "definition"
        } else {
            cat::use_class(&case.embed)
        };
        let value_unused = use_class == "unused-expression";
        // a wrong `ret` against the enclosing function's declared type below an else-less `if` is the `ret-in-if` kind
        let kind: &str = if case.kind == "ret-enclosing" && l.in_elseless_if { "ret-in-if" } else { &case.kind };
        labels.add(format!("kind:{}", kind));
        labels.add(format!("family:{}", cat::family_of(kind)));
        labels.add(format!("placement:{}", placement));
        labels.add(format!("cell:{}:{}", kind, placement));
        labels.add(format!("region:{}", region));
        labels.add(format!("embed:{}", case.embed));
        labels.add(format!("use:{}", use_class));
        labels.add(format!("usecell:{}:{}", kind, use_class));
        labels.add(format!("mode:{}", case.mode));
        labels.add(format!("depth:{}", l.depth.min(7)));
        labels.add(format!("closure-depth:{}", l.closure_depth.min(4)));
        if l.in_pure {
            labels.add("in-pure-function");
        }
        if l.in_loop {
            labels.add("in-loop");
        }
        if l.last_in_block {
            labels.add("last-in-block");
        }
        if case.module {
            labels.add("imported-module");
        }
        if !case.site_placement.is_empty() && case.site_placement != l.placement {
            labels.add("placement-disagrees");
        }

        // ---- the three programs
        let mut base = planted.clone();
        let ok = match &case.base {
            None => loc::apply(&mut base, &case.bad, case.is_expr, loc::Action::Remove),
            Some(t) => loc::apply(&mut base, &case.bad, case.is_expr, loc::Action::SetText(t.clone())),
        };
        let mut twin = planted.clone();
        let ok2 = loc::apply(&mut twin, &case.bad, case.is_expr, loc::Action::SetText(case.good.clone()));
        if ok.is_none() || ok2.is_none() {
            return Verdict::Discard("plant-missing".into());
        }
        let plan = &case.prog.plan;
        let src_planted = render(planted, plan).text;
        let o_base = compile(&project(render(&base, plan).text, case.module));
        if !o_base.is_accepted() {
            labels.add(format!("base-rejected:{}", err_class(&o_base)));
            return Verdict::Discard("base-rejected".into());
        }
        let src_twin = render(&twin, plan).text;
        let o_twin = compile(&project(src_twin.clone(), case.module));
        if !o_twin.is_accepted() {
            labels.add(format!("twin-rejected:{}:{}:{}", kind, placement, err_class(&o_twin)));
            if let Ok(d) = std::env::var("C03_SAVE_TWIN") {
                let _ = std::fs::create_dir_all(&d);
                let _ = std::fs::write(
                    format!("{}/twin_{:x}.sy", d, vcore::hash64(&src_twin)),
                    format!("// {} {} {}\n// {}\n{}", kind, placement, case.embed, o_twin.short(), src_twin),
                );
            }
            return Verdict::Discard(format!("twin-rejected/{}", cat::family_of(kind)));
        }
        let o = compile(&project(src_planted.clone(), case.module));
        let describe = |what: &str| -> String {
            format!(
                "{}\nmismatch kind: {} ({}); planted text: {:?}; legal twin (accepted): {:?}\nplacement: {} (region {}, depth {}, closure depth {}), value use: {}, imported module: {}\n--- planted source{} ---\n{}",
                what,
                kind,
                cat::family_of(kind),
                case.bad,
                case.good,
                placement,
                region,
                l.depth,
                l.closure_depth,
                use_class,
                case.module,
                if case.module { " (/p/lib.sy, used from /p/main.sy)" } else { "" },
                src_planted
            )
        };
        match &o {
            Outcome::Panicked { message, location, .. } => {
                labels.add(format!("planted-panicked:{}", location));
                let _ = message;
                Verdict::Discard("planted-panicked".into())
            }
            Outcome::Accepted(lua) => {
                if std::env::var("C03_CENSUS").is_ok() {
                    labels.add(format!("leak:{}:{}:{}", kind, use_class, placement));
                    if let Ok(d) = std::env::var("C03_SAVE_LEAK") {
                        let _ = std::fs::create_dir_all(&d);
                        let _ = std::fs::write(
                            format!("{}/leak_{}_{}_{:x}.sy", d, kind, use_class, vcore::hash64(&src_planted)),
                            format!("// {} {} {} planted={:?}\n{}", kind, placement, case.embed, case.bad, src_planted),
                        );
                    }
                    return Verdict::Pass { nontrivial: false };
                }
                Verdict::Violation {
                    signature: format!("C03/accepted/{}/{}", kind, use_class),
                    detail: describe(&format!(
                        "a program with a definite type mismatch was accepted ({} bytes of Lua written); expected: rejected with an error, no Lua",
                        lua.len()
                    )),
                }
            }
            Outcome::Rejected { errors, bytes_written } => {
                if *bytes_written > 0 {
                    return Verdict::Violation {
                        signature: "C03/wrote-lua-on-error".into(),
                        detail: describe(&format!("the program was rejected ({}) but {} bytes of Lua were written", o.short(), bytes_written)),
                    };
                }
                if errors.is_empty() {
                    return Verdict::Violation {
                        signature: "C03/rejected-without-error".into(),
                        detail: describe("the compiler returned failure with an empty error list"),
                    };
                }
                labels.add(format!("err:{}:{}", kind, err_class(&o)));
                if errors[0].kind != "Type" {
                    // the twin differs from the plant in literals only, so this would be a defect of the catalogue
                    labels.add(format!("non-type-error:{}:{}", kind, errors[0].kind));
                    return Verdict::Discard("plant-rejected-by-non-type-error".into());
                }
                let trivial = region == "start" && l.placement == "fnbody" && l.depth == 0 && !value_unused && !case.module;
                Verdict::Pass { nontrivial: !trivial }
            }
        }
    }

    fn simplify_at(&self, case: &Case, idx: usize) -> Step<Case> {
        if idx == 0 {
            return match minimal_program(case) {
                Some(p) => {
                    let source = render(&p, &case.prog.plan).text;
                    Step::Candidate(Case { prog: ProgCase { prog: p, plan: case.prog.plan.clone(), source }, ..case.clone() })
                }
                None => Step::Skip,
            };
        }
        if idx == 1 {
            return if case.module { Step::Candidate(Case { module: false, ..case.clone() }) } else { Step::Skip };
        }
        match shrink_step(&case.prog, idx - 2) {
            Step::End => Step::End,
            Step::Skip => Step::Skip,
            Step::Candidate(p) => Step::Candidate(Case { prog: p, ..case.clone() }),
        }
    }

    fn sample(&self, case: &Case) -> serde_json::Value {
        vcore::truncate_value(
            serde_json::json!({
                "kind": case.kind, "planted": case.bad, "twin": case.good, "embed": case.embed, "mode": case.mode,
                "imported_module": case.module, "source": render(&case.prog.prog, &case.prog.plan).text
            }),
            2500,
        )
    }

    fn rule(&self) -> String {
        format!(
            "cases: a well-typed generated base program (GenAST core profile) + one definite type mismatch out of {} kinds \
             (operators on literal operands of incompatible types incl. tuples, unary - / not on non-numbers / non-bools, calls of a \
             planted annotated function with too few / too many / wrongly typed arguments, values contradicting a planted annotation of a \
             variable, parameter, return (implicit, `ret`, and `ret` against the enclosing function's declared type), blob field (initialiser \
             and assignment), assignment to an annotated variable, non-bool if / elif / loop conditions, heterogeneous lists, calls of \
             non-functions, void stored in a variable), every operand a literal or a fresh name typed by the planted text itself. \
             Placement from syltmodel::plant: as raw statement(s) in a function body of start / a called function / an uncalled function, \
             closure, method, if branch, case arm, loop body, do block at any depth (expression plants wrapped as unused expression \
             statement, parenthesised, const / mutable definition, tuple element, list element, print argument, body of an unused local closure), \
             or replacing an expression of the plant's nominal type (global initialiser, argument, operand, field initialiser, condition, \
             definition value, element, return value, whole expression statement), or inside a new uncalled function (direct / if / loop / do / closure), \
             or as a new global's initialiser; 1 in 6 as an imported module. Oracle: unplanted base accepted (else discard), legal twin at the \
             same site accepted (else discard), planted program => Rejected with >= 1 type error and 0 bytes of Lua. \
             non-trivial = placement other than 'statement directly in start' or mismatch in a value-unused position; distinct by case hash",
            cat::ALL_KINDS.len()
        )
    }

    fn assumptions(&self) -> Vec<String> {
        vec![
            "the catalogue's spellings are mismatches by the language's documented typing (no implicit int/float/str/bool coercions; unary - on numbers only; conditions are bool; list elements share one type; void is not a value); `1 <= 1.0`-style mixed ordering comparisons are not used".into(),
            "the legal twin differs from the plant in literal tokens only, so a rejection of the planted program with the twin accepted is attributed to the mismatch".into(),
        ]
    }

    fn health(&self, s: &Stats) -> Result<(), String> {
        if s.evaluations < 2000 {
            return Ok(());
        }
        let discards: u64 = s.discards.values().sum();
        if discards * 100 > s.evaluations * 30 {
            return Err(format!("{} of {} cases discarded: {:?}", discards, s.evaluations, s.discards));
        }
        if s.discard("plant-rejected-by-non-type-error") * 200 > s.evaluations {
            return Err("planted programs are rejected by non-type errors (catalogue spelling defect)".into());
        }
        if s.label("placement-disagrees") > 0 {
            return Err("c03_loc and syltmodel::plant disagree about a placement".into());
        }
        for k in cat::ALL_KINDS {
            if s.label(&format!("kind:{}", k)) == 0 {
                return Err(format!("mismatch kind {} was never planted", k));
            }
        }
        for p in [
            "fnbody-start", "fnbody-used-fn", "fnbody-unused-fn", "closure", "method", "branch", "casearm", "loopbody", "doblock", "globalinit",
            "argument", "operand", "fieldinit", "condition", "defvalue", "element", "returnvalue",
        ] {
            if s.label(&format!("placement:{}", p)) == 0 {
                return Err(format!("placement class {} was never hit", p));
            }
        }
        for r in ["region:start", "region:used-fn", "region:unused-fn", "region:global-init", "imported-module", "use:unused-expression", "in-pure-function", "in-loop"] {
            if s.label(r) == 0 {
                return Err(format!("{} was never hit", r));
            }
        }
        if (s.nontrivial as f64) < 0.5 * s.evaluations as f64 {
            return Err(format!("only {} of {} cases are non-trivial", s.nontrivial, s.evaluations));
        }
        Ok(())
    }
}
