//! C12 — modules: imports resolve as documented and files are isolated.
//! Metamorphic + differential: a program split over files with random import styles behaves like the
//! reference interpreter says; removing an import / importing a missing name or file is rejected.
use crate::common::*;
use arbitrary::Unstructured;
use serde::{Deserialize, Serialize};
use std::collections::BTreeMap;
use syltmodel::ast::*;
use syltmodel::gen::Gen;
use syltmodel::interp::Stop;
use syltmodel::print::{print_files, ModulePlan, Plan as SurfacePlan};
use vcore::luarun::{run_lua, LuaOutcome, Terminal, Trace};
use vcore::{compile, Check, Labels, Outcome, Plan, Project, Stats, Step, Tape, Tier, Verdict};

pub struct C12;
pub const CHECK: C12 = C12;
pub fn plan(t: Tier) -> Plan {
    Plan::new(t.pick(10_000, 100_000), t.pick(3400, 4600))
}

#[derive(Clone, Debug, Serialize, Deserialize, PartialEq)]
pub enum Negative {
    /// delete the k-th import line of the project (counted over files in order)
    DropImport(usize),
    /// add `from <existing module> use zz_nope` to the main file
    MissingName,
    /// add `use zz_missing_file` to the main file
    MissingFile,
    /// add `zzq9 :: ns.name` to the main file where `ns` is a module imported by the main file with `use` and `name`
    /// is a global of the main file that the module does not define
    ForeignMember(usize),
    /// add `use <module A> as zzns` and `use <module B> as zzns` (two different files, one namespace name) to the main file
    /// and `zzq9 :: zzns.name` with `name` a global of A that B neither defines nor re-exports: the guide says a namespace
    /// name can be bound once ("since the namespace c is already used"), and `zzns` is documented to mean B by the second line
    NamespaceTwice(usize),
}

#[derive(Clone, Serialize, Deserialize)]
pub struct Case {
    pub prog: Program,
    pub modules: ModulePlan,
    pub negative: Option<Negative>,
    #[serde(default)]
    pub files: BTreeMap<String, String>,
}

/// (the last three carry the name of a standard-library module, in a sub-folder: they are project files all the same)
const FILE_POOL: &[&str] = &["libq", "modw", "sub/exports", "sub/inner", "sub/deep/leaf", "other/exports", "zeta", "sub/list", "other/math", "util/dict"];
const STD_STEMS: &[&str] = &["list", "math", "dict"];

fn module_plan(t: &mut Tape, p: &Program) -> ModulePlan {
    let n_items = p.blobs.len() + p.enums.len() + p.globals.len();
    let nf = 1 + t.weighted(&[5, 30, 30, 20, 15]);
    let mut files = vec!["main".to_string()];
    let mut pool: Vec<&str> = FILE_POOL.to_vec();
    for _ in 1..nf {
        if pool.is_empty() {
            break;
        }
        let i = t.below(pool.len());
        files.push(pool.remove(i).to_string());
    }
    let nf = files.len();
    let mut file_of = Vec::with_capacity(n_items);
    for i in 0..n_items {
        let gi = i as isize - (p.blobs.len() + p.enums.len()) as isize;
        let is_start = gi >= 0 && p.var(p.globals[gi as usize].var).name == "start";
        file_of.push(if is_start { 0 } else { t.below(nf) });
    }
    let mut style: Vec<Vec<u8>> = (0..nf).map(|_| (0..nf).map(|_| t.below(5) as u8).collect()).collect();
    // a module whose file name is that of a library module cannot be imported under its own name (the preamble binds
    // `list`, `math`, `dict` in every file): alias or `from` imports only
    for row in style.iter_mut() {
        for (to, s) in row.iter_mut().enumerate() {
            let stem = files[to].rsplit('/').next().unwrap_or("");
            if STD_STEMS.contains(&stem) && (*s == 0 || *s == 4) {
                *s = 1;
            }
        }
    }
    let rooted = (0..nf).map(|_| (0..nf).map(|_| t.chance(1, 4)).collect()).collect();
    let paren_lists = t.bool();
    let module_start = if nf > 1 && t.chance(1, 3) { Some(1 + t.below(nf - 1)) } else { None };
    ModulePlan { files, file_of, style, rooted, paren_lists, module_start }
}

fn plan_of(m: &ModulePlan) -> SurfacePlan {
    let mut p = SurfacePlan::default();
    p.modules = Some(m.clone());
    p
}

fn import_lines(files: &BTreeMap<String, String>) -> Vec<(String, usize, usize)> {
    // (file, first line index, number of lines) of every import statement
    let mut out = Vec::new();
    for (name, text) in files {
        let lines: Vec<&str> = text.lines().collect();
        let mut i = 0;
        while i < lines.len() {
            let l = lines[i];
            if l.starts_with("use ") {
                out.push((name.clone(), i, 1));
            } else if l.starts_with("from ") {
                if l.trim_end().ends_with('(') {
                    let mut j = i;
                    while j < lines.len() && lines[j].trim() != ")" {
                        j += 1;
                    }
                    out.push((name.clone(), i, j - i + 1));
                    i = j;
                } else {
                    out.push((name.clone(), i, 1));
                }
            } else if !l.trim().is_empty() {
                break; // imports come first
            }
            i += 1;
        }
    }
    out
}

fn apply_negative(files: &mut BTreeMap<String, String>, main: &str, neg: &Negative, m: &ModulePlan) -> bool {
    match neg {
        Negative::DropImport(k) => {
            // only imports of the main file that are actually needed there (a `from` import, or a namespace
            // that occurs in the text)
            let all = import_lines(files);
            let main_text = files.get(main).cloned().unwrap_or_default();
            let imps: Vec<(String, usize, usize)> = all
                .into_iter()
                .filter(|(f, at, _)| {
                    if f != main {
                        return false;
                    }
                    let line = main_text.lines().nth(*at).unwrap_or("");
                    if line.starts_with("from ") {
                        return true;
                    }
                    let ns = match line.find(" as ") {
                        Some(i) => line[i + 4..].trim().to_string(),
                        None => syltmodel::print::module_ns(line.split_whitespace().nth(1).unwrap_or("")),
                    };
                    // the namespace is used as the *first* segment of a path somewhere (`other.sub.x` does not use `sub`)
                    let pat = format!("{}.", ns);
                    main_text.match_indices(&pat).any(|(i, _)| {
                        let prev = main_text[..i].chars().next_back();
                        !matches!(prev, Some(c) if c.is_alphanumeric() || c == '_' || c == '.')
                    })
                })
                .collect();
            if imps.is_empty() {
                return false;
            }
            let (file, at, n) = imps[k % imps.len()].clone();
            let text = files.get(&file).unwrap().clone();
            let mut lines: Vec<&str> = text.lines().collect();
            for _ in 0..n {
                lines.remove(at);
            }
            let mut t = lines.join("\n");
            t.push('\n');
            files.insert(file, t);
            true
        }
        Negative::MissingName => {
            if m.files.len() < 2 {
                return false;
            }
            let path = syltmodel::print::import_path(&m.files[0], &m.files[1], false);
            let t = files.get(main).unwrap().clone();
            files.insert(main.to_string(), format!("from {} use zz_nope\n{}", path, t));
            true
        }
        Negative::MissingFile => {
            let t = files.get(main).unwrap().clone();
            files.insert(main.to_string(), format!("use zz_missing_file\n{}", t));
            true
        }
        Negative::ForeignMember(k) => {
            let main_text = files.get(main).cloned().unwrap_or_default();
            let top_names = |text: &str| -> Vec<String> {
                text.lines()
                    .filter(|l| !l.starts_with(' ') && (l.contains(" :: ") || l.contains(" := ")))
                    .filter_map(|l| l.split_whitespace().next().map(|x| x.trim_end_matches(':').to_string()))
                    .filter(|n| n.chars().next().map(|c| c.is_lowercase()).unwrap_or(false) && n != "start")
                    .collect()
            };
            let own = top_names(&main_text);
            // namespaces of the main file bound by `use path` / `use path as ns`, with the module text they name
            let mut cands: Vec<(String, String)> = Vec::new();
            for (f, at, _) in import_lines(files) {
                if f != main {
                    continue;
                }
                let line = main_text.lines().nth(at).unwrap_or("");
                if !line.starts_with("use ") {
                    continue;
                }
                let path = line.split_whitespace().nth(1).unwrap_or("");
                let ns = match line.find(" as ") {
                    Some(i) => line[i + 4..].trim().to_string(),
                    None => syltmodel::print::module_ns(path),
                };
                let target = m.files.iter().find(|mf| {
                    let shown = syltmodel::print::import_path(&m.files[0], mf, false);
                    shown == path || format!("/{}", shown.trim_start_matches('/')) == path
                });
                if let Some(mf) = target {
                    let text = files.get(&format!("/p/{}.sy", mf)).cloned().unwrap_or_default();
                    let theirs = top_names(&text);
                    // names the module imports with `from .. use ..` are members of its namespace too (re-export)
                    let imported_there: String = import_lines(files)
                        .into_iter()
                        .filter(|(f, _, _)| *f == format!("/p/{}.sy", mf))
                        .map(|(_, at, n)| text.lines().skip(at).take(n).collect::<Vec<_>>().join(" "))
                        .collect::<Vec<_>>()
                        .join(" ");
                    let reexported = |n: &str| imported_there.split(|c: char| !(c.is_alphanumeric() || c == '_')).any(|w| w == n);
                    for n in &own {
                        if !theirs.contains(n) && !reexported(n) {
                            cands.push((ns.clone(), n.clone()));
                        }
                    }
                }
            }
            if cands.is_empty() {
                return false;
            }
            let (ns, name) = cands[k % cands.len()].clone();
            files.insert(main.to_string(), format!("{}zzq9 :: {}.{}\n", main_text, ns, name));
            true
        }
        Negative::NamespaceTwice(k) => {
            if m.files.len() < 3 {
                return false;
            }
            let main_text = files.get(main).cloned().unwrap_or_default();
            let top_names = |text: &str| -> Vec<String> {
                text.lines()
                    .filter(|l| !l.starts_with(' ') && (l.contains(" :: ") || l.contains(" := ")))
                    .filter_map(|l| l.split_whitespace().next().map(|x| x.trim_end_matches(':').to_string()))
                    .filter(|n| n.chars().next().map(|c| c.is_lowercase()).unwrap_or(false) && n != "start")
                    .collect()
            };
            let words = |text: &str, n: &str| text.split(|c: char| !(c.is_alphanumeric() || c == '_')).any(|w| w == n);
            // ordered pairs (A, B) of different non-main files and a name of A that B's text does not mention at all
            let mut cands: Vec<(String, String, String)> = Vec::new();
            for a in m.files.iter().skip(1) {
                for b in m.files.iter().skip(1) {
                    if a == b {
                        continue;
                    }
                    let ta = files.get(&format!("/p/{}.sy", a)).cloned().unwrap_or_default();
                    let tb = files.get(&format!("/p/{}.sy", b)).cloned().unwrap_or_default();
                    for n in top_names(&ta) {
                        if !words(&tb, &n) {
                            cands.push((a.clone(), b.clone(), n));
                        }
                    }
                }
            }
            if cands.is_empty() {
                return false;
            }
            let (a, b, name) = cands[k % cands.len()].clone();
            let pa = syltmodel::print::import_path(&m.files[0], &a, false);
            let pb = syltmodel::print::import_path(&m.files[0], &b, false);
            files.insert(main.to_string(), format!("use {} as zzns\nuse {} as zzns\n{}zzq9 :: zzns.{}\n", pa, pb, main_text, name));
            true
        }
    }
}

impl Check for C12 {
    type Case = Case;
    fn id(&self) -> &'static str {
        "C12"
    }
    fn generate(&self, u: &mut Unstructured, tier: Tier) -> Option<Case> {
        let mut t = Tape::new(u);
        let prog = Gen::new(&mut t, crate::c11::toplevel_cfg(tier == Tier::Thorough)).program();
        let modules = module_plan(&mut t, &prog);
        let negative = if t.chance(1, 5) {
            Some(match t.below(6) {
                0 => Negative::MissingName,
                1 => Negative::MissingFile,
                2 | 3 => Negative::ForeignMember(t.below(16)),
                4 => Negative::NamespaceTwice(t.below(64)),
                _ => Negative::DropImport(t.below(16)),
            })
        } else {
            None
        };
        let files = print_files(&prog, &plan_of(&modules)).files;
        Some(Case { prog, modules, negative, files })
    }

    fn evaluate(&self, case: &Case, labels: &mut Labels) -> Verdict {
        let pf = print_files(&case.prog, &plan_of(&case.modules));
        let nfiles = pf.files.len();
        labels.add(format!("files:{}", nfiles.min(5)));
        for s in &pf.import_styles_used {
            labels.add(format!("style:{}", s));
        }
        // import graph features
        let imps = import_lines(&pf.files);
        let mut imported_by: BTreeMap<String, usize> = BTreeMap::new();
        let mut edges: Vec<(String, String)> = Vec::new();
        for (file, at, _) in &imps {
            let line = pf.files[file].lines().nth(*at).unwrap_or("").to_string();
            let path = line.split_whitespace().nth(1).unwrap_or("").to_string();
            *imported_by.entry(path.trim_start_matches('/').trim_end_matches('/').to_string()).or_default() += 1;
            edges.push((file.clone(), path.clone()));
            if line.contains(" as ") {
                labels.add("alias");
            }
            if path.starts_with('/') {
                labels.add("rooted-path");
            }
            if path.ends_with('/') {
                labels.add("folder-import");
            }
        }
        let diamond = imported_by.values().any(|c| *c >= 2);
        if diamond {
            labels.add("diamond");
        }
        // cycle: a imports b and b imports a (by module stem)
        let stem = |f: &str| f.trim_start_matches("/p/").trim_end_matches(".sy").trim_end_matches("/exports").to_string();
        let mut cycle = false;
        for (a, pa) in &edges {
            for (b, pb) in &edges {
                let (sa, sb) = (stem(a), stem(b));
                let (ta, tb) = (pa.trim_matches('/').to_string(), pb.trim_matches('/').to_string());
                if sa != sb && sa.ends_with(&tb) && sb.ends_with(&ta) {
                    cycle = true;
                }
            }
        }
        if cycle {
            labels.add("import-cycle");
        }

        let project = Project { files: pf.files.clone(), main: pf.main.clone(), std: true, require: None };
        let out = compile(&project);
        let show = |files: &BTreeMap<String, String>| -> String {
            files.iter().map(|(n, t)| format!("----- {} -----\n{}", n, t)).collect::<Vec<_>>().join("")
        };
        let lua = match &out {
            Outcome::Accepted(b) => b.clone(),
            Outcome::Rejected { errors, .. } => {
                // is the single-file rendering accepted? then splitting changed acceptance
                let single = render(&case.prog, &SurfacePlan::default());
                if compile(&Project::single(single.text.clone())).is_accepted() {
                    return Verdict::Violation {
                        signature: format!("C12/split-rejected/{}:{}", errors[0].kind, message_class(&errors[0].message)),
                        detail: format!(
                            "the single-file program is accepted, the same program split over files is rejected: {}\n{}\n----- single file -----\n{}",
                            out.short(),
                            show(&pf.files),
                            single.text
                        ),
                    };
                }
                labels.add(format!("base-rejected:{}:{}", errors[0].kind, errors[0].sub));
                return Verdict::Discard("base-rejected".into());
            }
            Outcome::Panicked { .. } => return Verdict::Discard("compiler-panicked".into()),
        };
        labels.add("accepted");

        if let Some(neg) = &case.negative {
            let mut files = pf.files.clone();
            if !apply_negative(&mut files, &pf.main, neg, &case.modules) {
                return Verdict::Discard("negative-not-applicable".into());
            }
            labels.add(format!("negative:{}", match neg { Negative::DropImport(_) => "drop-import", Negative::MissingName => "missing-name", Negative::MissingFile => "missing-file", Negative::ForeignMember(_) => "foreign-member", Negative::NamespaceTwice(_) => "namespace-twice" }));
            if let Negative::NamespaceTwice(_) = neg {
                // control: with the second `use .. as zzns` line removed the project is legal
                let mut control = files.clone();
                let mt = control.get(&pf.main).cloned().unwrap_or_default();
                let kept: Vec<&str> = mt.lines().enumerate().filter(|(i, _)| *i != 1).map(|(_, l)| l).collect();
                control.insert(pf.main.clone(), kept.join("\n") + "\n");
                match compile(&Project { files: control, main: pf.main.clone(), std: true, require: None }) {
                    Outcome::Accepted(_) => labels.add("namespace-twice-control-accepted"),
                    _ => return Verdict::Discard("negative-control-rejected".into()),
                }
            }
            let nout = compile(&Project { files: files.clone(), main: pf.main.clone(), std: true, require: None });
            return match nout {
                Outcome::Rejected { bytes_written, .. } => {
                    if bytes_written > 0 {
                        Verdict::Violation { signature: "C12/wrote-lua-on-error".into(), detail: "bytes written although rejected".into() }
                    } else {
                        Verdict::Pass { nontrivial: true }
                    }
                }
                Outcome::Accepted(_) => Verdict::Violation {
                    signature: format!("C12/negative-accepted/{}", match neg { Negative::DropImport(_) => "name-visible-without-import", Negative::MissingName => "import-of-missing-name", Negative::MissingFile => "import-of-missing-file", Negative::ForeignMember(_) => "member-of-other-file-through-namespace", Negative::NamespaceTwice(_) => "one-namespace-name-for-two-files" }),
                    detail: format!("a project that must be rejected ({:?}) is accepted\n{}", neg, show(&files)),
                },
                Outcome::Panicked { .. } => Verdict::Discard("compiler-panicked".into()),
            };
        }

        let r = reference(&case.prog, false);
        if r.ambiguous {
            return Verdict::Discard("order-ambiguous".into());
        }
        if r.nan_seen || r.unprintable_seen {
            return Verdict::Discard("nan-or-unprintable".into());
        }
        let terminal = match &r.stop {
            None => Terminal::Ok,
            Some(Stop::AssertFailed) => Terminal::AssertFailed,
            Some(Stop::Unreachable(uid)) => match pf.unreachable_lines.get(uid) {
                Some(l) if *l == usize::MAX => return Verdict::Discard("ref-unreachable-written-twice".into()),
                l => Terminal::Unreachable(*l.unwrap_or(&0) as u64),
            },
            Some(Stop::Budget(w)) => return Verdict::Discard(format!("ref-budget-{}", w)),
            Some(Stop::Dyn(k, _)) => {
                labels.add("ref-dynerror");
                return Verdict::Discard(format!("ref-dynerror-{}", k));
            }
        };
        let expected = Trace { lines: r.out.clone(), terminal };
        match run_lua(&lua, r.steps * 60 + 400_000) {
            LuaOutcome::LoadError { class, msg, .. } => Verdict::Violation {
                signature: format!("C12/lua-load/{}", class),
                detail: format!("emitted chunk does not load: {}\n{}", msg, show(&pf.files)),
            },
            LuaOutcome::Ran(t) => {
                if let Terminal::OutOfBudget(_) = t.terminal {
                    return Verdict::Discard("lua-budget".into());
                }
                if let Some((kind, what)) = diff_traces(&expected, &t) {
                    return Verdict::Violation {
                        signature: format!("C12/trace/{}", kind),
                        detail: format!("the program split over files behaves differently from its meaning: {}\n{}", what, show(&pf.files)),
                    };
                }
                Verdict::Pass { nontrivial: (nfiles >= 2 && pf.import_styles_used.len() >= 2) || cycle || diamond }
            }
        }
    }

    fn simplify_at(&self, case: &Case, idx: usize) -> Step<Case> {
        // first: move every item of one file into main (fewer files); then structural shrinking that keeps
        // the number of top-level items (so that file_of stays aligned)
        let nf = case.modules.files.len();
        if idx < nf.saturating_sub(1) {
            let f = idx + 1;
            if !case.modules.file_of.iter().any(|x| *x == f) {
                return Step::Skip;
            }
            let mut m = case.modules.clone();
            for x in m.file_of.iter_mut() {
                if *x == f {
                    *x = 0;
                }
            }
            let files = print_files(&case.prog, &plan_of(&m)).files;
            return Step::Candidate(Case { prog: case.prog.clone(), modules: m, negative: case.negative.clone(), files });
        }
        let pc = ProgCase { prog: case.prog.clone(), plan: SurfacePlan::default(), source: String::new() };
        let n_items = |p: &Program| p.blobs.len() + p.enums.len() + p.globals.len();
        match shrink_step(&pc, idx - nf.saturating_sub(1)) {
            Step::End => Step::End,
            Step::Skip => Step::Skip,
            Step::Candidate(p) => {
                let mut m = case.modules.clone();
                if n_items(&p.prog) != n_items(&case.prog) {
                    // a global was dropped: find which one by name and drop its slot
                    let old: Vec<&str> = case.prog.globals.iter().map(|g| case.prog.var(g.var).name.as_str()).collect();
                    let new: Vec<&str> = p.prog.globals.iter().map(|g| p.prog.var(g.var).name.as_str()).collect();
                    let base = case.prog.blobs.len() + case.prog.enums.len();
                    if let Some(k) = (0..old.len()).find(|k| new.get(*k) != Some(&old[*k])) {
                        if base + k < m.file_of.len() {
                            m.file_of.remove(base + k);
                        }
                    }
                }
                let files = print_files(&p.prog, &plan_of(&m)).files;
                Step::Candidate(Case { prog: p.prog, modules: m, negative: case.negative.clone(), files })
            }
        }
    }
    fn sample(&self, case: &Case) -> serde_json::Value {
        vcore::truncate_value(serde_json::json!({"files": print_files(&case.prog, &plan_of(&case.modules)).files, "negative": case.negative}), 1200)
    }
    fn rule(&self) -> String {
        "cases: a random well-typed program (top-level profile) whose blobs, enums and globals are partitioned over 1-5 files in up to \
         three folder levels (main, libq, modw, sub/exports, sub/inner, sub/deep/leaf, other/exports, zeta; `start` stays in main); every \
         cross-file reference to a global, type or variant constructor is written in the style drawn for that (from, to) pair: `use f` + \
         `f.x`, `use f as ns` + `ns.x`, `from f use x`, `from f use x as y`, or through a third module (`use g` here, `use f` in g, written `g.f.x` / `g.f.Type`); relative paths, `/`-rooted paths, folder imports of \
         `exports.sy`, parenthesised multi-line import lists; import cycles and diamonds arise from the partition. Oracle: the project is \
         accepted and its mini-Lua trace equals the reference interpreter's trace of the program (which is file-agnostic); a project \
         rejected although its single-file rendering is accepted is a violation. 1 case in 5 is negative: one import statement is deleted, \
         or `from m use zz_nope` / `use zz_missing_file` is added, or `ns.x` is written for a global x of the main file that module ns does not define; oracle: rejected with zero bytes. non-trivial = >= 2 files and >= 2 \
         import styles, or an import cycle or diamond, or a negative case; distinct by case hash"
            .into()
    }
    fn health(&self, s: &Stats) -> Result<(), String> {
        if s.evaluations < 200 {
            return Ok(());
        }
        if (s.label("accepted") as f64) < 0.5 * s.evaluations as f64 {
            return Err(format!("only {} of {} projects are accepted", s.label("accepted"), s.evaluations));
        }
        for l in ["style:0", "style:1", "style:2", "style:3", "style:4", "alias", "rooted-path", "folder-import", "diamond", "import-cycle"] {
            if s.label(l) * 30 < s.evaluations {
                return Err(format!("import feature {} is (nearly) absent: {} of {}", l, s.label(l), s.evaluations));
            }
        }
        Ok(())
    }
}
