//! Choice tape: all randomness of a generated case comes from here, so proptest's shrinking (shorter
//! tape, smaller bytes) and libFuzzer's mutations both act on the same decoder. Index 0 is always the
//! simplest alternative; an exhausted tape yields 0.
use arbitrary::Unstructured;

pub struct Tape<'a, 'b> {
    pub u: &'b mut Unstructured<'a>,
}

impl<'a, 'b> Tape<'a, 'b> {
    pub fn new(u: &'b mut Unstructured<'a>) -> Self {
        Tape { u }
    }
    pub fn byte(&mut self) -> u8 {
        self.u.arbitrary::<u8>().unwrap_or(0)
    }
    pub fn exhausted(&self) -> bool {
        self.u.is_empty()
    }
    pub fn remaining(&self) -> usize {
        self.u.len()
    }
    /// uniform-ish index in 0..n, monotone in the consumed byte(s)
    pub fn below(&mut self, n: usize) -> usize {
        if n <= 1 {
            return 0;
        }
        if n <= 256 {
            (self.byte() as usize * n) >> 8
        } else {
            let hi = self.byte() as usize;
            let lo = self.byte() as usize;
            let v = (hi << 8) | lo;
            ((v as u128 * n as u128) >> 16) as usize
        }
    }
    pub fn range(&mut self, lo: i64, hi: i64) -> i64 {
        debug_assert!(lo <= hi);
        lo + self.below((hi - lo + 1) as usize) as i64
    }
    pub fn bool(&mut self) -> bool {
        self.byte() >= 128
    }
    /// true with probability num/den; false is the simplest outcome
    pub fn chance(&mut self, num: u32, den: u32) -> bool {
        let b = self.byte() as u32;
        // high bytes => true
        b * den >= (den - num) * 256 && num > 0
    }
    pub fn pick<'t, T>(&mut self, xs: &'t [T]) -> &'t T {
        let i = self.below(xs.len());
        &xs[i]
    }
    /// weighted choice; returns index. Put the simplest alternative first.
    pub fn weighted(&mut self, weights: &[u32]) -> usize {
        let total: u32 = weights.iter().sum();
        if total == 0 {
            return 0;
        }
        let mut r = self.below(total as usize) as u32;
        for (i, w) in weights.iter().enumerate() {
            if r < *w {
                return i;
            }
            r -= *w;
        }
        weights.len() - 1
    }
    pub fn u64(&mut self) -> u64 {
        let mut v = 0u64;
        for _ in 0..8 {
            v = (v << 8) | self.byte() as u64;
        }
        v
    }
}
