//! Generic property-check engine.
//!
//! * cases are decoded from byte tapes (`arbitrary::Unstructured`) produced by seeded proptest runners;
//! * the search runs in **child processes** (one per chunk of cases, W at a time): the code under test
//!   can exhaust memory or spin, which cannot be contained inside a thread. A child limits its own
//!   address space, runs a per-case watchdog and records the tape of the case it is working on, so a
//!   dead child identifies the input that killed it;
//! * a failing tape is shrunk by proptest, then structurally (`Check::simplify`), and written as a
//!   replay file holding the *case* (replay never goes through the generator);
//! * known findings (committed file, never written here) are replayed first and excluded by signature.
use crate::project::guarded;
use arbitrary::Unstructured;
use proptest::prelude::*;
use proptest::test_runner::{Config, RngSeed, TestCaseError, TestError, TestRunner};
use serde::de::DeserializeOwned;
use serde::Deserialize as _;
use serde::{Deserialize, Serialize};
use serde_json::{json, Value};
use std::collections::{BTreeMap, HashSet};
use std::hash::{Hash, Hasher};
use std::path::{Path, PathBuf};
use std::sync::atomic::{AtomicBool, AtomicU64, Ordering};
use std::sync::{Arc, Mutex};
use std::time::{Duration, Instant};

pub const VERIF_ROOT: &str = "/verif";

/// root of the verification tree (known_findings.json, replays/, evidence/); `VERIF_ROOT` in the
/// environment redirects it for isolated experiments (sensitivity runs against scratch copies)
pub fn verif_root() -> PathBuf {
    match std::env::var("VERIF_ROOT") {
        Ok(r) if !r.is_empty() => PathBuf::from(r),
        _ => PathBuf::from(VERIF_ROOT),
    }
}

#[derive(Clone, Copy, Debug, PartialEq, Eq)]
pub enum Tier {
    Quick,
    Thorough,
}
impl Tier {
    pub fn name(self) -> &'static str {
        match self {
            Tier::Quick => "quick",
            Tier::Thorough => "thorough",
        }
    }
    pub fn pick<T>(self, quick: T, thorough: T) -> T {
        match self {
            Tier::Quick => quick,
            Tier::Thorough => thorough,
        }
    }
}

#[derive(Clone, Debug)]
pub struct RunCfg {
    pub tier: Tier,
    pub seed: u64,
    pub workers: usize,
}

#[derive(Clone, Debug, Serialize, Deserialize)]
pub enum Verdict {
    /// property held on this case; `nontrivial` by the check's stated rule
    Pass { nontrivial: bool },
    /// case unusable (outside the property's domain, budget, unspecified behaviour, ...)
    Discard(String),
    Violation { signature: String, detail: String },
}

/// Labels/classification collected per case (merged into histograms in the evidence).
#[derive(Default)]
pub struct Labels {
    pub set: Vec<String>,
}
impl Labels {
    pub fn add(&mut self, l: impl Into<String>) {
        self.set.push(l.into());
    }
}

pub enum Step<T> {
    Candidate(T),
    Skip,
    End,
}

pub trait Check: Sync {
    type Case: Serialize + DeserializeOwned + Clone + Send + 'static;
    fn id(&self) -> &'static str;
    /// Build a case from a choice tape. `None` = tape did not yield a case (counted as "gen-none").
    fn generate(&self, u: &mut Unstructured, tier: Tier) -> Option<Self::Case>;
    fn evaluate(&self, case: &Self::Case, labels: &mut Labels) -> Verdict;
    /// The `idx`-th structurally smaller variant of a failing case (tried greedily while the signature
    /// persists; after a success the same index is tried again on the new case).
    fn simplify_at(&self, _case: &Self::Case, _idx: usize) -> Step<Self::Case> {
        Step::End
    }
    /// How a case is shown in evidence samples.
    fn sample(&self, case: &Self::Case) -> Value {
        truncate_value(serde_json::to_value(case).unwrap_or(Value::Null), 2048)
    }
    fn rule(&self) -> String;
    fn assumptions(&self) -> Vec<String> {
        Vec::new()
    }
    /// What a child that died while evaluating a case means for this property:
    /// `Some(signature prefix)` = violation (C07), `None` = the case is discarded and counted.
    fn death_is_violation(&self) -> Option<String> {
        None
    }
    /// Generator health rule: Err(description) => exit 2, never a verdict.
    fn health(&self, _stats: &Stats) -> Result<(), String> {
        Ok(())
    }
    /// Extra deterministic work done once in the parent (e.g. an exhaustive enumeration); may add
    /// violations and evidence keys.
    fn extra_phase(&self, _cfg: &RunCfg, _stats: &mut Stats) -> Vec<Found> {
        Vec::new()
    }
}

pub fn truncate_value(v: Value, max: usize) -> Value {
    match v {
        Value::String(s) if s.len() > max => {
            let mut end = max;
            while !s.is_char_boundary(end) {
                end -= 1;
            }
            Value::String(format!("{}…[+{} bytes]", &s[..end], s.len() - end))
        }
        Value::Array(a) => Value::Array(a.into_iter().map(|x| truncate_value(x, max)).collect()),
        Value::Object(o) => Value::Object(o.into_iter().map(|(k, x)| (k, truncate_value(x, max))).collect()),
        other => other,
    }
}

#[derive(Default, Clone, Serialize, Deserialize)]
pub struct Stats {
    pub evaluations: u64,
    pub passed: u64,
    pub nontrivial: u64,
    pub distinct_nontrivial: HashSet<u64>,
    pub discards: BTreeMap<String, u64>,
    pub labels: BTreeMap<String, u64>,
    pub excluded_known: BTreeMap<String, u64>,
    pub samples: Vec<Value>,
    pub extra: BTreeMap<String, Value>,
}
impl Stats {
    pub fn merge(&mut self, o: Stats) {
        self.evaluations += o.evaluations;
        self.passed += o.passed;
        self.nontrivial += o.nontrivial;
        self.distinct_nontrivial.extend(o.distinct_nontrivial);
        for (k, v) in o.discards {
            *self.discards.entry(k).or_default() += v;
        }
        for (k, v) in o.labels {
            *self.labels.entry(k).or_default() += v;
        }
        for (k, v) in o.excluded_known {
            *self.excluded_known.entry(k).or_default() += v;
        }
        for s in o.samples {
            if self.samples.len() < 5 {
                self.samples.push(s);
            }
        }
        for (k, v) in o.extra {
            self.extra.insert(k, v);
        }
    }
    pub fn label(&self, l: &str) -> u64 {
        *self.labels.get(l).unwrap_or(&0)
    }
    pub fn label_frac(&self, l: &str) -> f64 {
        if self.evaluations == 0 {
            return 0.0;
        }
        self.label(l) as f64 / self.evaluations as f64
    }
    pub fn discard(&self, l: &str) -> u64 {
        *self.discards.get(l).unwrap_or(&0)
    }
}

#[derive(Clone, Debug, Serialize, Deserialize)]
pub struct Found {
    pub signature: String,
    pub detail: String,
    pub case_json: Value,
}

#[derive(Clone, Debug, Deserialize)]
pub struct KnownFinding {
    pub property: String,
    pub signature: String,
    pub reproducer: String,
    pub status: String,
    #[serde(default)]
    pub commit: Option<String>,
    pub what: String,
}

pub fn load_known(property: &str) -> Vec<KnownFinding> {
    let p = verif_root().join("known_findings.json");
    let txt = match std::fs::read_to_string(&p) {
        Ok(t) => t,
        Err(_) => return Vec::new(),
    };
    let all: Vec<KnownFinding> = match serde_json::from_str(&txt) {
        Ok(a) => a,
        Err(e) => {
            println!("INFRA: known_findings.json does not parse: {}", e);
            std::process::exit(2);
        }
    };
    all.into_iter().filter(|k| k.property == property).collect()
}

/// JSON parsing without serde_json's recursion limit (GenAST cases nest deeply)
pub fn json_from_slice<T: DeserializeOwned>(b: &[u8]) -> Result<T, String> {
    let mut de = serde_json::Deserializer::from_slice(b);
    de.disable_recursion_limit();
    T::deserialize(&mut de).map_err(|e| e.to_string())
}

pub fn hash64<T: Hash + ?Sized>(t: &T) -> u64 {
    struct Fnv(u64);
    impl Hasher for Fnv {
        fn finish(&self) -> u64 {
            self.0
        }
        fn write(&mut self, b: &[u8]) {
            for x in b {
                self.0 ^= *x as u64;
                self.0 = self.0.wrapping_mul(0x100000001b3);
            }
        }
    }
    let mut h = Fnv(0xcbf29ce484222325);
    t.hash(&mut h);
    h.finish()
}

#[derive(Clone, Debug)]
pub struct Plan {
    /// total number of generated cases
    pub cases: u64,
    /// cases per child process
    pub chunk: u64,
    /// maximal tape length in bytes
    pub tape_len: usize,
    pub max_shrink_iters: u32,
    /// per-case watchdog in seconds (a case exceeding it kills the child)
    pub case_timeout_s: u64,
    /// address-space limit of a child in MiB
    pub mem_limit_mb: u64,
}
impl Plan {
    pub fn new(cases: u64, tape_len: usize) -> Plan {
        Plan { cases, chunk: (cases / 64).clamp(50, 2000), tape_len, max_shrink_iters: 300, case_timeout_s: 30, mem_limit_mb: 4096 }
    }
}

fn replay_dir(id: &str) -> PathBuf {
    verif_root().join("replays").join(id)
}
fn scratch_dir(id: &str) -> PathBuf {
    let d = verif_root().join("evidence").join(format!(".run-{}", id));
    let _ = std::fs::create_dir_all(&d);
    d
}

pub fn write_replay(id: &str, f: &Found, seed: u64, tier: Tier, sub: &str) -> PathBuf {
    let dir = replay_dir(id).join(sub);
    let _ = std::fs::create_dir_all(&dir);
    let name = format!("{:016x}.json", hash64(&(f.signature.as_str(), f.case_json.to_string())));
    let path = dir.join(name);
    let doc = json!({
        "property": id,
        "signature": f.signature,
        "detail": f.detail,
        "seed": seed,
        "tier": tier.name(),
        "case": f.case_json,
    });
    let _ = std::fs::write(&path, serde_json::to_string_pretty(&doc).unwrap());
    path
}

pub fn load_replay_case(path: &Path) -> Result<(String, Value), String> {
    let txt = std::fs::read_to_string(path).map_err(|e| format!("cannot read {}: {}", path.display(), e))?;
    let v: Value = json_from_slice(txt.as_bytes()).map_err(|e| format!("{}: {}", path.display(), e))?;
    let sig = v.get("signature").and_then(|s| s.as_str()).unwrap_or("").to_string();
    let case = v.get("case").cloned().ok_or_else(|| "replay file has no 'case'".to_string())?;
    Ok((sig, case))
}

/// Evaluate a check on a stored case (in this process).
pub fn replay_case<C: Check>(check: &C, case_json: &Value) -> Result<Verdict, String> {
    let case: C::Case =
        serde_json::from_value(case_json.clone()).map_err(|e| format!("case does not decode: {}", e))?;
    let mut l = Labels::default();
    guarded(|| check.evaluate(&case, &mut l)).map_err(|(m, loc)| format!("harness panic {} at {}", m, loc))
}

// ------------------------------------------------------------------------------------------------
// child side
// ------------------------------------------------------------------------------------------------

fn set_mem_limit(mb: u64) {
    unsafe {
        let lim = libc::rlimit { rlim_cur: (mb << 20) as libc::rlim_t, rlim_max: (mb << 20) as libc::rlim_t };
        libc::setrlimit(libc::RLIMIT_AS, &lim);
        // no core files
        let z = libc::rlimit { rlim_cur: 0, rlim_max: 0 };
        libc::setrlimit(libc::RLIMIT_CORE, &z);
    }
}

// ---- death diagnostics: when a case runs away (time or memory) the watchdog interrupts the evaluating
// thread with SIGUSR1; the handler captures that thread's backtrace, derives the dominant frame of the
// code under test (the "call site" of the runaway) and exits. The parent reads it from the marker file.
static DEATH_MARKER: std::sync::OnceLock<PathBuf> = std::sync::OnceLock::new();
static DEATH_CLASS: AtomicU64 = AtomicU64::new(0); // 1 = timeout, 2 = memory
static EVAL_THREAD: AtomicU64 = AtomicU64::new(0);

fn dominant_frame(bt: &str) -> String {
    let mut counts: BTreeMap<String, usize> = BTreeMap::new();
    let mut order: Vec<String> = Vec::new();
    for line in bt.lines() {
        let l = line.trim();
        // frames look like "12: sylt_compiler::typechecker::TypeChecker::inner_copy"
        if let Some(pos) = l.find("sylt_") {
            let sym: String = l[pos..].chars().take_while(|c| !c.is_whitespace()).collect();
            // strip hash suffix ::h0123...
            let sym = match sym.rfind("::h") {
                Some(i) if sym[i + 3..].chars().all(|c| c.is_ascii_hexdigit()) => sym[..i].to_string(),
                _ => sym,
            };
            if sym.starts_with("sylt_macro") {
                continue;
            }
            if !counts.contains_key(&sym) {
                order.push(sym.clone());
            }
            *counts.entry(sym).or_default() += 1;
        }
    }
    // the runaway site: the innermost function of the code under test that is recursive in this stack
    // (appears at least twice); failing that, the innermost frame
    for sym in &order {
        if counts[sym] >= 2 {
            return sym.clone();
        }
    }
    order.first().cloned().unwrap_or_else(|| "unknown".to_string())
}

/// `sylt_compiler::typechecker::TypeChecker::inner_copy` -> `sylt_compiler::typechecker`
fn module_of(sym: &str) -> String {
    let mut parts: Vec<&str> = sym.split("::").collect();
    if parts.len() > 1 {
        parts.pop();
    }
    while parts.len() > 1 && parts.last().map(|p| p.starts_with(|c: char| c.is_uppercase() || c == '<' || c == '{')).unwrap_or(false) {
        parts.pop();
    }
    parts.join("::")
}

static MARKER_CSTR: std::sync::OnceLock<std::ffi::CString> = std::sync::OnceLock::new();

extern "C" {
    fn backtrace(buf: *mut *mut libc::c_void, size: libc::c_int) -> libc::c_int;
    fn backtrace_symbols_fd(buf: *const *mut libc::c_void, size: libc::c_int, fd: libc::c_int);
}

/// async-signal-safe: no allocation (the interrupted thread is usually inside malloc)
extern "C" fn death_handler(_sig: libc::c_int) {
    unsafe {
        if let Some(path) = MARKER_CSTR.get() {
            let fd = libc::open(path.as_ptr(), libc::O_WRONLY | libc::O_CREAT | libc::O_TRUNC, 0o644);
            if fd >= 0 {
                let head: &[u8] = if DEATH_CLASS.load(Ordering::Relaxed) == 2 { b"memory\n" } else { b"timeout\n" };
                libc::write(fd, head.as_ptr() as *const libc::c_void, head.len());
                let mut buf: [*mut libc::c_void; 400] = [std::ptr::null_mut(); 400];
                let n = backtrace(buf.as_mut_ptr(), 400);
                backtrace_symbols_fd(buf.as_ptr(), n, fd);
                libc::close(fd);
            }
        }
        libc::_exit(97);
    }
}

/// crude demangling of legacy Rust symbols (_ZN<len><ident>...E), dropping the hash component
fn demangle(sym: &str) -> String {
    let b = sym.as_bytes();
    if !sym.starts_with("_ZN") {
        return sym.to_string();
    }
    let mut i = 3;
    let mut parts: Vec<String> = Vec::new();
    while i < b.len() && b[i] != b'E' {
        let mut n = 0usize;
        let st = i;
        while i < b.len() && b[i].is_ascii_digit() {
            n = n * 10 + (b[i] - b'0') as usize;
            i += 1;
        }
        if i == st || i + n > b.len() {
            break;
        }
        let part = &sym[i..i + n];
        i += n;
        if part.len() == 17 && part.starts_with('h') && part[1..].chars().all(|c| c.is_ascii_hexdigit()) {
            continue;
        }
        parts.push(part.replace("$LT$", "<").replace("$GT$", ">").replace("$u20$", " ").replace("..", "::"));
    }
    parts.join("::")
}

/// the most frequent frame of the code under test in a backtrace_symbols_fd dump; offsets into this
/// executable are symbolised with llvm-symbolizer (symbol table only; no debug info needed)
fn dominant_frame_raw(txt: &str) -> String {
    let exe = match std::env::current_exe() {
        Ok(e) => e,
        Err(_) => return "unknown".into(),
    };
    let exe_s = exe.to_string_lossy().to_string();
    let mut offsets: Vec<String> = Vec::new();
    for line in txt.lines() {
        if !line.starts_with(&exe_s) {
            continue;
        }
        if let (Some(a), Some(b)) = (line.find("(+0x"), line.find(")[")) {
            if a < b {
                offsets.push(line[a + 2..b].to_string());
            }
        } else if let (Some(a), Some(b)) = (line.find('('), line.find('+')) {
            // named frame
            if a < b {
                offsets.push(format!("NAME:{}", demangle(&line[a + 1..b])));
            }
        }
    }
    let mut pretty = String::new();
    let real: Vec<&String> = offsets.iter().filter(|o| !o.starts_with("NAME:")).collect();
    let mut names: Vec<String> = Vec::new();
    if !real.is_empty() {
        for tool in ["llvm-symbolizer", "llvm-symbolizer-14"] {
            let out = std::process::Command::new(tool).arg("-e").arg(&exe).arg("-f").arg("-C").args(real.iter().map(|s| s.as_str())).output();
            if let Ok(o) = out {
                if o.status.success() {
                    let t = String::from_utf8_lossy(&o.stdout).to_string();
                    // groups of: function name / file:line / blank
                    let mut lines = t.lines();
                    while let Some(f) = lines.next() {
                        names.push(f.to_string());
                        let _ = lines.next();
                        let _ = lines.next();
                    }
                    break;
                }
            }
        }
    }
    let mut ni = 0;
    for o in &offsets {
        if let Some(n) = o.strip_prefix("NAME:") {
            pretty.push_str(n);
        } else if ni < names.len() {
            pretty.push_str(&names[ni]);
            ni += 1;
        }
        pretty.push('\n');
    }
    dominant_frame(&pretty)
}

fn rss_bytes() -> u64 {
    std::fs::read_to_string("/proc/self/statm")
        .ok()
        .and_then(|s| s.split_whitespace().nth(1).and_then(|x| x.parse::<u64>().ok()))
        .map(|pages| pages * 4096)
        .unwrap_or(0)
}

struct Watchdog {
    started_ms: Arc<AtomicU64>,
    epoch: Instant,
}
impl Watchdog {
    /// must be called on the thread that evaluates cases
    fn start(limit_s: u64, mem_soft_mb: u64, marker: PathBuf) -> Watchdog {
        let _ = DEATH_MARKER.set(marker.clone());
        let _ = MARKER_CSTR.set(std::ffi::CString::new(marker.to_string_lossy().as_bytes()).unwrap());
        unsafe {
            // first call loads the unwinder; later calls do not allocate
            let mut warm: [*mut libc::c_void; 4] = [std::ptr::null_mut(); 4];
            backtrace(warm.as_mut_ptr(), 4);
            EVAL_THREAD.store(libc::pthread_self() as u64, Ordering::SeqCst);
            libc::signal(libc::SIGUSR1, death_handler as usize);
        }
        let started_ms = Arc::new(AtomicU64::new(0));
        let epoch = Instant::now();
        let s2 = started_ms.clone();
        std::thread::spawn(move || loop {
            std::thread::sleep(Duration::from_millis(100));
            let st = s2.load(Ordering::Relaxed);
            let mut class = 0;
            if st != 0 {
                let now = epoch.elapsed().as_millis() as u64;
                if now.saturating_sub(st) > limit_s * 1000 {
                    class = 1;
                }
            }
            if class == 0 && rss_bytes() > (mem_soft_mb << 20) {
                class = 2;
            }
            if class != 0 {
                DEATH_CLASS.store(class, Ordering::SeqCst);
                unsafe {
                    libc::pthread_kill(EVAL_THREAD.load(Ordering::SeqCst) as libc::pthread_t, libc::SIGUSR1);
                }
                // fallback if the handler does not get to run
                std::thread::sleep(Duration::from_secs(10));
                let _ = std::fs::write(&marker, if class == 2 { "memory\nunknown\n" } else { "timeout\nunknown\n" });
                unsafe { libc::_exit(97) };
            }
        });
        Watchdog { started_ms, epoch }
    }
    fn begin(&self) {
        self.started_ms.store(self.epoch.elapsed().as_millis() as u64 + 1, Ordering::Relaxed);
    }
    fn end(&self) {
        self.started_ms.store(0, Ordering::Relaxed);
    }
}

#[derive(Serialize, Deserialize, Default)]
struct ChunkResult {
    stats: Stats,
    found: Option<Found>,
    harness_bug: Option<String>,
}

fn chunk_seed(cfg: &RunCfg, id: &str, chunk: u64) -> u64 {
    hash64(&(cfg.seed, id, chunk, cfg.tier.name()))
}

/// Runs one chunk of generated cases in this (child) process and writes the result file.
fn child_chunk<C: Check>(check: &C, cfg: &RunCfg, plan: &Plan, chunk: u64, cases: u64, open_sigs: &[String], skip: &[u64], out: &Path) -> i32 {
    set_mem_limit(plan.mem_limit_mb);
    let cur = out.with_extension("cur");
    let wd = Watchdog::start(plan.case_timeout_s, plan.mem_limit_mb / 2, out.with_extension("timeout"));
    let stats = Mutex::new(Stats::default());
    let harness_bug: Mutex<Option<String>> = Mutex::new(None);
    let failing = AtomicBool::new(false);
    let aborted = AtomicBool::new(false);
    let config = Config {
        cases: cases as u32,
        failure_persistence: None,
        rng_seed: RngSeed::Fixed(chunk_seed(cfg, check.id(), chunk)),
        max_shrink_iters: plan.max_shrink_iters,
        max_global_rejects: u32::MAX,
        max_local_rejects: u32::MAX,
        ..Config::default()
    };
    let mut runner = TestRunner::new(config);
    let lo = plan.tape_len / 4;
    let strategy = proptest::collection::vec(any::<u8>(), lo..=plan.tape_len);
    let tier = cfg.tier;
    let last_fail: Mutex<Option<Found>> = Mutex::new(None);
    let counter = AtomicU64::new(0);

    let eval_tape = |tape: &[u8], counting: bool| -> Result<(), TestCaseError> {
        // record what we are about to do, so that a dead process identifies its input
        let idx = counter.fetch_add(1, Ordering::Relaxed);
        if counting && skip.contains(&idx) {
            // this input killed an earlier incarnation of this chunk
            let mut s = stats.lock().unwrap();
            s.evaluations += 1;
            return Ok(());
        }
        let mut rec = Vec::with_capacity(tape.len() + 16);
        rec.extend_from_slice(&idx.to_le_bytes());
        rec.extend_from_slice(tape);
        let _ = std::fs::write(&cur, &rec);
        wd.begin();
        let mut u = Unstructured::new(tape);
        let case = match guarded(|| check.generate(&mut u, tier)) {
            Ok(Some(c)) => c,
            Ok(None) => {
                wd.end();
                if counting {
                    let mut s = stats.lock().unwrap();
                    s.evaluations += 1;
                    *s.discards.entry("gen-none".into()).or_default() += 1;
                }
                return Ok(());
            }
            Err((m, l)) => {
                wd.end();
                *harness_bug.lock().unwrap() = Some(format!("generator panicked: {} at {}", m, l));
                aborted.store(true, Ordering::SeqCst);
                return Ok(());
            }
        };
        let mut labels = Labels::default();
        let verdict = guarded(|| check.evaluate(&case, &mut labels));
        wd.end();
        let verdict = match verdict {
            Ok(v) => v,
            Err((m, l)) => {
                let cj = serde_json::to_string(&case).unwrap_or_default();
                *harness_bug.lock().unwrap() =
                    Some(format!("evaluate panicked: {} at {} on case {}", m, l, crate::project::first_line(&cj)));
                aborted.store(true, Ordering::SeqCst);
                return Ok(());
            }
        };
        if counting {
            let mut s = stats.lock().unwrap();
            s.evaluations += 1;
            for l in labels.set.iter() {
                *s.labels.entry(l.clone()).or_default() += 1;
            }
            match &verdict {
                Verdict::Pass { nontrivial } => {
                    s.passed += 1;
                    if *nontrivial {
                        s.nontrivial += 1;
                        let key = hash64(&serde_json::to_string(&case).unwrap_or_default());
                        let fresh = s.distinct_nontrivial.insert(key);
                        if fresh && s.samples.is_empty() && s.nontrivial >= 3 {
                            let v = check.sample(&case);
                            s.samples.push(v);
                        }
                    }
                }
                Verdict::Discard(r) => {
                    *s.discards.entry(r.clone()).or_default() += 1;
                }
                Verdict::Violation { .. } => {}
            }
        }
        match verdict {
            Verdict::Violation { signature, detail } => {
                if open_sigs.iter().any(|k| k == &signature) {
                    if counting {
                        let mut s = stats.lock().unwrap();
                        *s.excluded_known.entry(signature).or_default() += 1;
                    }
                    return Ok(());
                }
                *last_fail.lock().unwrap() = Some(Found {
                    signature: signature.clone(),
                    detail,
                    case_json: serde_json::to_value(&case).unwrap_or(Value::Null),
                });
                Err(TestCaseError::fail(signature))
            }
            _ => Ok(()),
        }
    };

    let result = runner.run(&strategy, |tape| {
        if aborted.load(Ordering::Relaxed) {
            return Ok(());
        }
        let counting = !failing.load(Ordering::Relaxed);
        let r = eval_tape(&tape, counting);
        if r.is_err() {
            failing.store(true, Ordering::Relaxed);
        }
        r
    });

    let mut found = None;
    match result {
        Ok(()) => {}
        Err(TestError::Fail(_reason, tape)) => {
            *last_fail.lock().unwrap() = None;
            let _ = eval_tape(&tape, false);
            if let Some(mut f) = last_fail.lock().unwrap().take() {
                structural_shrink(check, &mut f, open_sigs, &wd);
                found = Some(f);
            } else {
                *harness_bug.lock().unwrap() = Some("minimal tape no longer fails (non-deterministic check?)".into());
            }
        }
        Err(TestError::Abort(r)) => {
            *harness_bug.lock().unwrap() = Some(format!("proptest aborted: {}", r));
        }
    }
    let res = ChunkResult { stats: stats.into_inner().unwrap(), found, harness_bug: harness_bug.into_inner().unwrap() };
    let _ = std::fs::write(out, serde_json::to_vec(&res).unwrap());
    let _ = std::fs::remove_file(&cur);
    0
}

fn structural_shrink<C: Check>(check: &C, f: &mut Found, open_sigs: &[String], wd: &Watchdog) {
    let mut case: C::Case = match serde_json::from_value(f.case_json.clone()) {
        Ok(c) => c,
        Err(_) => return,
    };
    let mut budget = 1500usize;
    let mut idx = 0usize;
    let mut progress_since_wrap = false;
    loop {
        if budget == 0 {
            break;
        }
        match check.simplify_at(&case, idx) {
            Step::End => {
                if progress_since_wrap {
                    // another pass: earlier sites may have become removable
                    idx = 0;
                    progress_since_wrap = false;
                    continue;
                }
                break;
            }
            Step::Skip => idx += 1,
            Step::Candidate(cand) => {
                budget -= 1;
                let mut l = Labels::default();
                wd.begin();
                let r = guarded(|| check.evaluate(&cand, &mut l));
                wd.end();
                match r {
                    Ok(Verdict::Violation { signature, detail })
                        if signature == f.signature && !open_sigs.iter().any(|k| k == &signature) =>
                    {
                        case = cand;
                        f.detail = detail;
                        progress_since_wrap = true;
                    }
                    _ => idx += 1,
                }
            }
        }
    }
    f.case_json = serde_json::to_value(&case).unwrap_or(Value::Null);
}

/// Evaluates one stored case in this (child) process and writes the verdict.
fn child_eval<C: Check>(check: &C, plan: &Plan, file: &Path, out: &Path) -> i32 {
    let mem = std::env::var("VERIF_CHILD_MEM_MB").ok().and_then(|s| s.parse().ok()).unwrap_or(plan.mem_limit_mb);
    let tmo = std::env::var("VERIF_CHILD_TIMEOUT_S").ok().and_then(|s| s.parse().ok()).unwrap_or(plan.case_timeout_s * 2);
    set_mem_limit(mem);
    let wd = Watchdog::start(tmo, mem / 2, out.with_extension("timeout"));
    let (_sig, case) = match load_replay_case(file) {
        Ok(x) => x,
        Err(e) => {
            let _ = std::fs::write(out, serde_json::to_vec(&json!({"infra": e})).unwrap());
            return 0;
        }
    };
    wd.begin();
    let v = replay_case(check, &case);
    wd.end();
    let doc = match v {
        Ok(v) => json!({ "verdict": v }),
        Err(e) => json!({ "infra": e }),
    };
    let _ = std::fs::write(out, serde_json::to_vec(&doc).unwrap());
    0
}

// ------------------------------------------------------------------------------------------------
// parent side
// ------------------------------------------------------------------------------------------------

#[derive(Debug)]
enum ChildEnd {
    Done,
    Died(String), // class: oom | timeout | signal-N | exit-N
}

fn classify_death(status: std::process::ExitStatus, stderr_path: &Path, timeout_marker: &Path) -> ChildEnd {
    use std::os::unix::process::ExitStatusExt;
    if status.success() {
        return ChildEnd::Done;
    }
    if timeout_marker.exists() {
        let txt = String::from_utf8_lossy(&std::fs::read(timeout_marker).unwrap_or_default()).to_string();
        let class = txt.lines().next().unwrap_or("timeout").to_string();
        // the sampled frame depends on the moment the limit is hit: the signature names the module only
        let frame = dominant_frame_raw(&txt);
        eprintln!("death diagnostics: {} in {}", class, frame);
        return ChildEnd::Died(format!("{}@{}", class, module_of(&frame)));
    }
    let err = std::fs::read_to_string(stderr_path).unwrap_or_default();
    if err.contains("memory allocation of") || err.contains("alloc") && err.contains("failed") {
        return ChildEnd::Died("oom".into());
    }
    if err.contains("has overflowed its stack") {
        return ChildEnd::Died("stack-overflow".into());
    }
    if let Some(sig) = status.signal() {
        return ChildEnd::Died(format!("signal-{}", sig));
    }
    ChildEnd::Died(format!("exit-{}", status.code().unwrap_or(-1)))
}

fn spawn_self(args: &[String], stderr_path: &Path, cfg: &RunCfg) -> std::io::Result<std::process::Child> {
    spawn_self_env(args, stderr_path, cfg, &[])
}

fn spawn_self_env(args: &[String], stderr_path: &Path, cfg: &RunCfg, envs: &[(&str, String)]) -> std::io::Result<std::process::Child> {
    let exe = std::env::current_exe()?;
    let errf = std::fs::File::create(stderr_path)?;
    let mut cmd = std::process::Command::new(exe);
    for (k, v) in envs {
        cmd.env(k, v);
    }
    cmd.args(args)
        .env("VERIF_SEED", format!("{}", cfg.seed as i64))
        .env("VERIF_TIER", cfg.tier.name())
        .env("RUST_BACKTRACE", "0")
        .stdin(std::process::Stdio::null())
        .stdout(std::process::Stdio::null())
        .stderr(errf)
        .spawn()
}

/// Evaluate a stored case in a child; returns Ok(verdict) or Err(death class / infra text).
fn eval_in_child<C: Check>(check: &C, cfg: &RunCfg, file: &Path, tag: &str) -> Result<Verdict, ChildEndOrInfra> {
    let dir = scratch_dir(check.id());
    let out = dir.join(format!("eval-{}.json", tag));
    let errp = dir.join(format!("eval-{}.stderr", tag));
    let _ = std::fs::remove_file(&out);
    let _ = std::fs::remove_file(out.with_extension("timeout"));
    let args = vec![
        check.id().to_string(),
        cfg.tier.name().to_string(),
        "--eval-file".into(),
        file.to_string_lossy().to_string(),
        "--result".into(),
        out.to_string_lossy().to_string(),
    ];
    let mut child = spawn_self(&args, &errp, cfg).map_err(|e| ChildEndOrInfra::Infra(format!("spawn: {}", e)))?;
    let status = child.wait().map_err(|e| ChildEndOrInfra::Infra(format!("wait: {}", e)))?;
    match classify_death(status, &errp, &out.with_extension("timeout")) {
        ChildEnd::Died(c) => Err(ChildEndOrInfra::Died(c)),
        ChildEnd::Done => {
            let txt = std::fs::read_to_string(&out).map_err(|e| ChildEndOrInfra::Infra(format!("no result: {}", e)))?;
            let v: Value = json_from_slice(txt.as_bytes()).map_err(ChildEndOrInfra::Infra)?;
            if let Some(i) = v.get("infra") {
                return Err(ChildEndOrInfra::Infra(i.to_string()));
            }
            serde_json::from_value(v["verdict"].clone()).map_err(|e| ChildEndOrInfra::Infra(e.to_string()))
        }
    }
}

/// Shrink a case whose evaluation kills the process: candidates are evaluated in short-lived children
/// (reduced memory/time limits), a batch at a time.
fn shrink_death<C: Check>(check: &C, cfg: &RunCfg, f: &mut Found, class: &str) {
    let mut case: C::Case = match serde_json::from_value(f.case_json.clone()) {
        Ok(c) => c,
        Err(_) => return,
    };
    let dir = scratch_dir(check.id());
    let (mem, tmo) = if class.starts_with("timeout") { ("4096".to_string(), "8".to_string()) } else { ("2048".to_string(), "20".to_string()) };
    let mut idx = 0usize;
    let mut budget: usize = std::env::var("VERIF_SHRINK_BUDGET").ok().and_then(|s| s.parse().ok()).unwrap_or(400);
    let mut progressed = false;
    let t0 = Instant::now();
    loop {
        if budget == 0 || t0.elapsed() > Duration::from_secs(std::env::var("VERIF_SHRINK_SECS").ok().and_then(|s| s.parse().ok()).unwrap_or(420)) {
            break;
        }
        // collect a batch of candidates
        let mut batch: Vec<(usize, C::Case)> = Vec::new();
        let mut j = idx;
        let mut ended = false;
        while batch.len() < cfg.workers.max(1) {
            match check.simplify_at(&case, j) {
                Step::End => {
                    ended = true;
                    break;
                }
                Step::Skip => j += 1,
                Step::Candidate(c) => {
                    batch.push((j, c));
                    j += 1;
                }
            }
        }
        if batch.is_empty() {
            if ended && progressed {
                idx = 0;
                progressed = false;
                continue;
            }
            break;
        }
        let mut kids = Vec::new();
        for (n, (ci, c)) in batch.iter().enumerate() {
            budget = budget.saturating_sub(1);
            let file = dir.join(format!("shrink-{}.json", n));
            let out = dir.join(format!("shrink-{}.out", n));
            let errp = dir.join(format!("shrink-{}.stderr", n));
            let _ = std::fs::remove_file(&out);
            let _ = std::fs::remove_file(out.with_extension("timeout"));
            let doc = json!({"property": check.id(), "signature": f.signature, "case": serde_json::to_value(c).unwrap_or(Value::Null)});
            let _ = std::fs::write(&file, serde_json::to_vec(&doc).unwrap());
            let args = vec![
                check.id().to_string(),
                cfg.tier.name().to_string(),
                "--eval-file".into(),
                file.to_string_lossy().to_string(),
                "--result".into(),
                out.to_string_lossy().to_string(),
            ];
            let _ = (&mem, &tmo);
            if let Ok(k) = spawn_self_env(&args, &errp, cfg, &[]) {
                kids.push((n, *ci, k, out, errp));
            }
        }
        let mut best: Option<(usize, usize)> = None; // (candidate index in simplify order, batch slot)
        for (n, ci, mut k, out, errp) in kids {
            if let Ok(st) = k.wait() {
                if let ChildEnd::Died(c) = classify_death(st, &errp, &out.with_extension("timeout")) {
                    if c == class && best.map(|b| ci < b.0).unwrap_or(true) {
                        best = Some((ci, n));
                    }
                }
            }
        }
        match best {
            Some((ci, n)) => {
                case = batch[n].1.clone();
                idx = ci;
                progressed = true;
            }
            None => idx = j,
        }
        if ended && best.is_none() {
            if progressed {
                idx = 0;
                progressed = false;
            } else {
                break;
            }
        }
    }
    f.case_json = serde_json::to_value(&case).unwrap_or(Value::Null);
}

pub enum ChildEndOrInfra {
    Died(String),
    Infra(String),
}

fn death_verdict<C: Check>(check: &C, class: &str) -> Option<Verdict> {
    check.death_is_violation().map(|prefix| Verdict::Violation {
        signature: format!("{}/{}", prefix, class),
        detail: format!("the process evaluating this case died: {}", class),
    })
}

pub struct Cli {
    pub cfg: RunCfg,
    pub replay: Option<PathBuf>,
    pub eval_file: Option<PathBuf>,
    pub result: Option<PathBuf>,
    pub chunk: Option<u64>,
    pub cases: Option<u64>,
    pub open_sigs: Vec<String>,
    pub shrink_death: Option<PathBuf>,
    pub tape: Option<PathBuf>,
    pub skip: Vec<u64>,
}

pub fn parse_cli(args: &[String]) -> Cli {
    let mut tier = match std::env::var("VERIF_TIER").ok().as_deref() {
        Some("thorough") => Tier::Thorough,
        _ => Tier::Quick,
    };
    let mut cli = Cli {
        cfg: RunCfg { tier, seed: 0, workers: 1 },
        replay: None,
        eval_file: None,
        result: None,
        chunk: None,
        cases: None,
        open_sigs: Vec::new(),
        shrink_death: None,
        tape: None,
        skip: Vec::new(),
    };
    let mut i = 0;
    while i < args.len() {
        let next = |i: &mut usize| -> Option<String> {
            *i += 1;
            args.get(*i).cloned()
        };
        match args[i].as_str() {
            "quick" => tier = Tier::Quick,
            "thorough" => tier = Tier::Thorough,
            "--replay" => cli.replay = next(&mut i).map(PathBuf::from),
            "--shrink-death" => cli.shrink_death = next(&mut i).map(PathBuf::from),
            "--eval-file" => cli.eval_file = next(&mut i).map(PathBuf::from),
            "--tape" => cli.tape = next(&mut i).map(PathBuf::from),
            "--result" => cli.result = next(&mut i).map(PathBuf::from),
            "--skip" => {
                if let Some(l) = next(&mut i) {
                    cli.skip = l.split(',').filter_map(|x| x.parse().ok()).collect();
                }
            }
            "--chunk" => cli.chunk = next(&mut i).and_then(|s| s.parse().ok()),
            "--cases" => cli.cases = next(&mut i).and_then(|s| s.parse().ok()),
            "--open-sig" => {
                if let Some(s) = next(&mut i) {
                    cli.open_sigs.push(s)
                }
            }
            _ => {}
        }
        i += 1;
    }
    let seed = std::env::var("VERIF_SEED").ok().and_then(|s| s.trim().parse::<i64>().ok()).unwrap_or(0) as u64;
    let workers = std::env::var("VERIF_WORKERS")
        .ok()
        .and_then(|s| s.parse().ok())
        .unwrap_or_else(|| std::thread::available_parallelism().map(|n| n.get()).unwrap_or(8).min(16));
    cli.cfg = RunCfg { tier, seed, workers };
    cli
}

/// Entry point used by every check binary/sub-command. `args` = everything after the property id.
pub fn main_entry<C: Check>(check: &C, plan_for: impl Fn(Tier) -> Plan, args: &[String]) -> i32 {
    crate::project::install_panic_hook();
    let cli = parse_cli(args);
    let plan = plan_for(cli.cfg.tier);
    if let (Some(chunk), Some(cases), Some(out)) = (cli.chunk, cli.cases, cli.result.as_ref()) {
        return crate::project::on_big_stack_scoped(512, || child_chunk(check, &cli.cfg, &plan, chunk, cases, &cli.open_sigs, &cli.skip, out));
    }
    if let (Some(file), Some(out)) = (cli.eval_file.as_ref(), cli.result.as_ref()) {
        return crate::project::on_big_stack_scoped(512, || child_eval(check, &plan, file, out));
    }
    if let Some(path) = cli.replay.as_ref() {
        return replay_main(check, &cli.cfg, path);
    }
    if let Some(path) = cli.tape.as_ref() {
        return tape_main(check, &cli.cfg, path);
    }
    if let Some(path) = cli.shrink_death.as_ref() {
        // developer tool: minimise a stored case whose evaluation kills the process
        let (sig, case) = match load_replay_case(path) {
            Ok(x) => x,
            Err(e) => {
                println!("INFRA: {}", e);
                return 2;
            }
        };
        let class = match eval_in_child(check, &cli.cfg, path, "shrinkprobe") {
            Err(ChildEndOrInfra::Died(c)) => c,
            _ => {
                println!("the case does not kill the evaluating process");
                return 0;
            }
        };
        let mut f = Found { signature: sig, detail: format!("died: {}", class), case_json: case };
        shrink_death(check, &cli.cfg, &mut f, &class);
        let out = path.with_extension("min.json");
        let doc = json!({"property": check.id(), "signature": f.signature, "detail": f.detail, "case": f.case_json});
        let _ = std::fs::write(&out, serde_json::to_string_pretty(&doc).unwrap());
        println!("wrote {}", out.display());
        return 0;
    }
    run_parent(check, &cli.cfg, &plan)
}

/// Triage of a fuzzer artifact (a raw choice tape): decode it exactly as the fuzz target does, store the case as a
/// replay file and evaluate it in a child process under the usual limits. Exit 1 only for a violation whose
/// signature is not an open known finding.
fn tape_main<C: Check>(check: &C, cfg: &RunCfg, tape: &Path) -> i32 {
    let data = match std::fs::read(tape) {
        Ok(d) => d,
        Err(e) => {
            println!("INFRA: cannot read {}: {}", tape.display(), e);
            return 2;
        }
    };
    let mut u = Unstructured::new(&data);
    let case = match guarded(|| check.generate(&mut u, Tier::Thorough)) {
        Ok(Some(c)) => c,
        _ => {
            println!("tape: decodes to no case");
            return 0;
        }
    };
    let f = Found { signature: "fuzz/artifact".into(), detail: format!("decoded from fuzzer artifact {}", tape.display()), case_json: serde_json::to_value(&case).unwrap_or(Value::Null) };
    let path = write_replay(check.id(), &f, cfg.seed, Tier::Thorough, "found");
    let open: Vec<String> = load_known(check.id()).into_iter().filter(|k| k.status == "open").map(|k| k.signature).collect();
    let v = match eval_in_child(check, cfg, &path, "tape") {
        Ok(v) => v,
        Err(ChildEndOrInfra::Died(c)) => match death_verdict(check, &c) {
            Some(v) => v,
            None => {
                println!("tape: evaluating process died ({}); for this property that is a discarded case", c);
                let _ = std::fs::remove_file(&path);
                return 0;
            }
        },
        Err(ChildEndOrInfra::Infra(e)) => {
            println!("INFRA: {}", e);
            return 2;
        }
    };
    match v {
        Verdict::Violation { signature, detail } => {
            if open.iter().any(|k| k == &signature) {
                println!("tape: open known finding {}", signature);
                let _ = std::fs::remove_file(&path);
                return 0;
            }
            let f2 = Found { signature: signature.clone(), detail: detail.clone(), case_json: f.case_json.clone() };
            let _ = std::fs::remove_file(&path);
            let path = write_replay(check.id(), &f2, cfg.seed, Tier::Thorough, "found");
            println!("violation: {}", signature);
            println!("{}", detail);
            println!("VIOLATION property={} replay={}", check.id(), path.display());
            1
        }
        _ => {
            println!("tape: property holds on this case");
            let _ = std::fs::remove_file(&path);
            0
        }
    }
}

fn replay_main<C: Check>(check: &C, cfg: &RunCfg, path: &Path) -> i32 {
    let stored = load_replay_case(path).map(|x| x.0).unwrap_or_default();
    let v = match eval_in_child(check, cfg, path, "replay") {
        Ok(v) => v,
        Err(ChildEndOrInfra::Died(c)) => match death_verdict(check, &c) {
            Some(v) => v,
            None => {
                println!("replay: evaluating process died ({}); for this property that is a discarded case", c);
                return 0;
            }
        },
        Err(ChildEndOrInfra::Infra(e)) => {
            println!("INFRA: {}", e);
            return 2;
        }
    };
    match v {
        Verdict::Violation { signature, detail } => {
            println!("replay: violation signature={} (stored signature={})", signature, stored);
            println!("{}", detail);
            println!("VIOLATION property={} replay={}", check.id(), path.display());
            1
        }
        Verdict::Pass { nontrivial } => {
            println!("replay: property holds on this case (nontrivial={})", nontrivial);
            0
        }
        Verdict::Discard(r) => {
            println!("replay: case discarded ({})", r);
            0
        }
    }
}

fn run_parent<C: Check>(check: &C, cfg: &RunCfg, plan: &Plan) -> i32 {
    let t0 = Instant::now();
    let id = check.id();
    let known = load_known(id);
    let mut violations: Vec<(Found, PathBuf)> = Vec::new();
    let mut infra_errors: Vec<String> = Vec::new();
    let dir = scratch_dir(id);
    // clean scratch
    if let Ok(rd) = std::fs::read_dir(&dir) {
        for e in rd.flatten() {
            let _ = std::fs::remove_file(e.path());
        }
    }

    // 1. known findings: replay their reproducers (each in its own child)
    let mut open_sigs: Vec<String> = Vec::new();
    for (n, k) in known.iter().enumerate() {
        let path = verif_root().join(&k.reproducer);
        let case = match load_replay_case(&path) {
            Ok(x) => x.1,
            Err(e) => {
                infra_errors.push(format!("known finding reproducer: {}", e));
                continue;
            }
        };
        let verdict = match eval_in_child(check, cfg, &path, &format!("known{}", n)) {
            Ok(v) => v,
            Err(ChildEndOrInfra::Died(c)) => match death_verdict(check, &c) {
                Some(v) => v,
                None => Verdict::Discard(format!("died-{}", c)),
            },
            Err(ChildEndOrInfra::Infra(e)) => {
                infra_errors.push(e);
                continue;
            }
        };
        match (k.status.as_str(), verdict) {
            ("open", Verdict::Violation { signature, detail }) => {
                if signature == k.signature {
                    println!("KNOWN-FINDING: property={} {} [{}]", id, k.what, k.signature);
                    open_sigs.push(k.signature.clone());
                } else {
                    violations.push((Found { signature, detail, case_json: case.clone() }, path.clone()));
                }
            }
            ("open", _) => {
                println!(
                    "note: open known finding {} does not reproduce on this tree ({}); nothing is suppressed for it",
                    k.signature, k.reproducer
                );
            }
            ("fixed", Verdict::Violation { signature, detail }) => {
                violations.push((Found { signature, detail, case_json: case.clone() }, path.clone()));
            }
            ("fixed", _) => {}
            (s, _) => infra_errors.push(format!("known finding with unknown status {:?}", s)),
        }
    }

    // 2. regression seeds: every file under replays/<id>/regress must hold
    let regress = replay_dir(id).join("regress");
    if let Ok(rd) = std::fs::read_dir(&regress) {
        let mut files: Vec<PathBuf> = rd.filter_map(|e| e.ok()).map(|e| e.path()).collect();
        files.sort();
        for (n, p) in files.iter().enumerate() {
            if p.extension().map(|e| e == "json").unwrap_or(false) {
                let verdict = match eval_in_child(check, cfg, p, &format!("regress{}", n)) {
                    Ok(v) => v,
                    Err(ChildEndOrInfra::Died(c)) => match death_verdict(check, &c) {
                        Some(v) => v,
                        None => continue,
                    },
                    Err(ChildEndOrInfra::Infra(e)) => {
                        infra_errors.push(e);
                        continue;
                    }
                };
                if let Verdict::Violation { signature, detail } = verdict {
                    if !open_sigs.iter().any(|s| s == &signature) {
                        let case = load_replay_case(p).map(|x| x.1).unwrap_or(Value::Null);
                        violations.push((Found { signature, detail, case_json: case }, p.clone()));
                    }
                }
            }
        }
    }

    // 3. generated search, chunked over child processes
    let mut stats = Stats::default();
    let n_chunks = (plan.cases + plan.chunk - 1) / plan.chunk;
    let mut queue: std::collections::VecDeque<(u64, Vec<u64>)> = (0..n_chunks).map(|k| (k, Vec::new())).collect();
    let mut running: Vec<(u64, std::process::Child, PathBuf, PathBuf, Vec<u64>)> = Vec::new();
    let mut deaths: BTreeMap<String, u64> = BTreeMap::new();
    let mut death_samples: Vec<Value> = Vec::new();
    let mut seen_sigs: HashSet<String> = HashSet::new();
    let mut lost_cases = 0u64;
    let mut stop_spawning = false;
    let mut pending_deaths: Vec<(Found, String)> = Vec::new();
    loop {
        while !stop_spawning && running.len() < cfg.workers.max(1) && !queue.is_empty() {
            let (k, skips) = queue.pop_front().unwrap();
            let cases = plan.chunk.min(plan.cases - k * plan.chunk);
            let out = dir.join(format!("chunk-{}.json", k));
            let errp = dir.join(format!("chunk-{}.stderr", k));
            let mut args = vec![
                id.to_string(),
                cfg.tier.name().to_string(),
                "--chunk".into(),
                k.to_string(),
                "--cases".into(),
                cases.to_string(),
                "--result".into(),
                out.to_string_lossy().to_string(),
            ];
            for s in &open_sigs {
                args.push("--open-sig".into());
                args.push(s.clone());
            }
            if !skips.is_empty() {
                args.push("--skip".into());
                args.push(skips.iter().map(|x| x.to_string()).collect::<Vec<_>>().join(","));
            }
            let _ = std::fs::remove_file(&out);
            let _ = std::fs::remove_file(out.with_extension("timeout"));
            match spawn_self(&args, &errp, cfg) {
                Ok(c) => running.push((k, c, out, errp, skips)),
                Err(e) => {
                    infra_errors.push(format!("spawn: {}", e));
                    stop_spawning = true;
                }
            }
        }
        if running.is_empty() {
            break;
        }
        // reap
        let mut i = 0;
        let mut progressed = false;
        while i < running.len() {
            let done = match running[i].1.try_wait() {
                Ok(Some(st)) => Some(st),
                Ok(None) => None,
                Err(_) => None,
            };
            if let Some(st) = done {
                progressed = true;
                let (k, _c, out, errp, mut skips) = running.remove(i);
                match classify_death(st, &errp, &out.with_extension("timeout")) {
                    ChildEnd::Done => match std::fs::read(&out).ok().and_then(|b| json_from_slice::<ChunkResult>(&b).ok()) {
                        Some(r) => {
                            stats.merge(r.stats);
                            if let Some(b) = r.harness_bug {
                                infra_errors.push(b);
                                stop_spawning = true;
                            }
                            if let Some(f) = r.found {
                                if seen_sigs.insert(f.signature.clone()) {
                                    let p = write_replay(id, &f, cfg.seed, cfg.tier, "found");
                                    violations.push((f, p));
                                }
                                // one violation per signature is enough; keep searching other chunks only
                                // while fewer than 3 distinct signatures were found
                                if seen_sigs.len() >= 3 {
                                    stop_spawning = true;
                                }
                            }
                        }
                        None => {
                            let why = match std::fs::read(&out) {
                                Ok(b) => match json_from_slice::<ChunkResult>(&b) {
                                    Ok(_) => "ok?".to_string(),
                                    Err(e) => format!("{} bytes, parse error: {}", b.len(), e),
                                },
                                Err(e) => format!("read error: {}", e),
                            };
                            let err = std::fs::read_to_string(&errp).unwrap_or_default();
                            infra_errors.push(format!("chunk {}: result file missing or unreadable ({}); stderr: {}", k, why, crate::project::first_line(&err)));
                        }
                    },
                    ChildEnd::Died(class) => {
                        // the input that killed the child
                        let cur = out.with_extension("cur");
                        let rec = std::fs::read(&cur).unwrap_or_default();
                        let (idx, tape) = if rec.len() >= 8 {
                            (u64::from_le_bytes(rec[..8].try_into().unwrap()), rec[8..].to_vec())
                        } else {
                            (0, Vec::new())
                        };
                        *deaths.entry(class.clone()).or_default() += 1;
                        // run the chunk again without the deadly input (at most 8 times)
                        if rec.len() >= 8 && skips.len() < 8 && !skips.contains(&idx) {
                            skips.push(idx);
                            queue.push_back((k, skips.clone()));
                        } else {
                            let cases = plan.chunk.min(plan.cases - k * plan.chunk);
                            lost_cases += cases;
                        }
                        let mut u = Unstructured::new(&tape);
                        let case = guarded(|| check.generate(&mut u, cfg.tier)).ok().flatten();
                        let case_json = case.as_ref().map(|c| serde_json::to_value(c).unwrap_or(Value::Null)).unwrap_or(Value::Null);
                        let sig_prefix = check.death_is_violation();
                        let f = Found {
                            signature: format!("{}/{}", sig_prefix.clone().unwrap_or_else(|| format!("{}/child-died", id)), class),
                            detail: format!("child process evaluating chunk {} died ({}) on its case #{}", k, class, idx),
                            case_json,
                        };
                        if sig_prefix.is_some() {
                            if open_sigs.iter().any(|s| s == &f.signature) {
                                *stats.excluded_known.entry(f.signature.clone()).or_default() += 1;
                            } else if seen_sigs.insert(f.signature.clone()) {
                                pending_deaths.push((f, class.clone()));
                            }
                        } else {
                            *stats.discards.entry(format!("child-died-{}", class)).or_default() += 1;
                            if death_samples.len() < 2 {
                                if let Some(c) = &case {
                                    death_samples.push(check.sample(c));
                                }
                            }
                            // keep the input for C07's benefit
                            let _ = write_replay(id, &f, cfg.seed, cfg.tier, "died");
                        }
                    }
                }
            } else {
                i += 1;
            }
        }
        if !progressed {
            std::thread::sleep(Duration::from_millis(15));
        }
    }
    for (mut f, class) in pending_deaths {
        shrink_death(check, cfg, &mut f, &class);
        let p = write_replay(id, &f, cfg.seed, cfg.tier, "found");
        violations.push((f, p));
    }
    if !deaths.is_empty() {
        stats.extra.insert("child_deaths".into(), json!(deaths));
        stats.extra.insert("cases_lost_to_child_deaths".into(), json!(lost_cases));
        if !death_samples.is_empty() {
            stats.extra.insert("child_death_samples".into(), json!(death_samples));
        }
    }

    // 4. extra deterministic phase (enumerations etc.) in the parent
    for f in check.extra_phase(cfg, &mut stats) {
        if open_sigs.iter().any(|s| s == &f.signature) {
            *stats.excluded_known.entry(f.signature.clone()).or_default() += 1;
            continue;
        }
        if seen_sigs.insert(f.signature.clone()) {
            let p = write_replay(id, &f, cfg.seed, cfg.tier, "found");
            violations.push((f, p));
        }
    }

    let health = if violations.is_empty() && infra_errors.is_empty() { check.health(&stats) } else { Ok(()) };
    let wall = t0.elapsed().as_secs_f64();
    write_evidence(check, cfg, &stats, violations.len(), wall, plan);
    let _ = std::fs::remove_dir_all(&dir);

    for e in &infra_errors {
        println!("INFRA: {}", e);
    }
    for (f, p) in &violations {
        println!("violation: {}\n{}", f.signature, f.detail);
        println!("VIOLATION property={} replay={}", id, p.display());
    }
    println!(
        "{} {} seed={} evaluations={} passed={} nontrivial={} distinct_nontrivial={} discards={:?} excluded_known={:?} deaths={:?} wall={:.1}s",
        id,
        cfg.tier.name(),
        cfg.seed as i64,
        stats.evaluations,
        stats.passed,
        stats.nontrivial,
        stats.distinct_nontrivial.len(),
        stats.discards,
        stats.excluded_known,
        deaths,
        wall
    );
    if !violations.is_empty() {
        return 1;
    }
    if !infra_errors.is_empty() {
        return 2;
    }
    if let Err(h) = health {
        println!("INFRA: generator health rule failed: {}", h);
        return 2;
    }
    0
}

pub fn write_evidence<C: Check>(check: &C, cfg: &RunCfg, stats: &Stats, violations: usize, wall: f64, plan: &Plan) {
    let id = check.id();
    let dir = verif_root().join("evidence");
    let _ = std::fs::create_dir_all(&dir);
    let mut coverage = serde_json::Map::new();
    coverage.insert("evaluations".into(), json!(stats.evaluations));
    coverage.insert("distinct_nontrivial".into(), json!(stats.distinct_nontrivial.len()));
    coverage.insert("rule".into(), json!(check.rule()));
    coverage.insert("samples".into(), json!(stats.samples));
    coverage.insert("passed".into(), json!(stats.passed));
    coverage.insert("nontrivial_total".into(), json!(stats.nontrivial));
    coverage.insert("discarded".into(), json!(stats.discards));
    coverage.insert("labels".into(), json!(stats.labels));
    coverage.insert("excluded_known".into(), json!(stats.excluded_known));
    coverage.insert("planned_cases".into(), json!(plan.cases));
    coverage.insert("tape_len".into(), json!(plan.tape_len));
    coverage.insert("workers".into(), json!(cfg.workers));
    for (k, v) in &stats.extra {
        coverage.insert(k.clone(), v.clone());
    }
    let doc = json!({
        "property_id": id,
        "tier": cfg.tier.name(),
        "seed": cfg.seed as i64,
        "level": "exploration",
        "coverage": Value::Object(coverage),
        "assumptions": check.assumptions(),
        "wall_s": (wall * 1000.0).round() / 1000.0,
        "violations": violations,
    });
    let path = dir.join(format!("{}.json", id));
    let tmp = dir.join(format!(".{}.json.tmp", id));
    let _ = std::fs::write(&tmp, serde_json::to_string_pretty(&doc).unwrap());
    let _ = std::fs::rename(&tmp, &path);
}


// ------------------------------------------------------------------------------------------------
// coverage-guided fuzzing (cargo fuzz): the same generators and oracles, driven by libFuzzer's mutations
// ------------------------------------------------------------------------------------------------

/// One libFuzzer iteration: decode a case from `data`, evaluate it, and panic (= crash for libFuzzer) on a
/// violation whose signature is not an open known finding.
pub fn fuzz_one<C: Check>(check: &C, data: &[u8]) {
    static KNOWN: std::sync::OnceLock<Vec<String>> = std::sync::OnceLock::new();
    crate::project::install_panic_hook();
    let id = check.id();
    let known = KNOWN.get_or_init(|| load_known(id).into_iter().filter(|k| k.status == "open").map(|k| k.signature).collect());
    let mut u = Unstructured::new(data);
    let case = match guarded(|| check.generate(&mut u, Tier::Thorough)) {
        Ok(Some(c)) => c,
        _ => return,
    };
    let mut labels = Labels::default();
    if let Ok(Verdict::Violation { signature, detail }) = guarded(|| check.evaluate(&case, &mut labels)) {
        if known.iter().any(|k| k == &signature) {
            return;
        }
        // the artifact (the tape) is triaged afterwards by `svcheck <id> thorough --tape <artifact>`, which writes the replay file
        let _ = detail;
        eprintln!("fuzz: violation candidate property={} signature={}", id, signature);
        std::process::abort();
    }
}
