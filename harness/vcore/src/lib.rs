pub mod engine;
#[cfg(feature = "lua")]
pub mod luarun;
pub mod project;
pub mod tape;
pub use engine::*;
pub use project::*;
pub use tape::Tape;
