//! Running / loading emitted chunks with mini-Lua and mapping the outcome to the classes the checks use.
use serde::{Deserialize, Serialize};

#[derive(Clone, Debug, PartialEq, Eq, Serialize, Deserialize)]
pub enum Terminal {
    Ok,
    AssertFailed,
    /// `<!>` reached; carries the line number printed in the message
    Unreachable(u64),
    /// any other Lua runtime error, with a coarse class and the message
    LuaError { class: String, msg: String },
    OutOfBudget(String),
}

#[derive(Clone, Debug, PartialEq, Eq, Serialize, Deserialize)]
pub struct Trace {
    pub lines: Vec<String>,
    pub terminal: Terminal,
}

#[derive(Clone, Debug)]
pub enum LuaOutcome {
    LoadError { class: String, msg: String, line: usize },
    Ran(Trace),
}

pub fn classify_lua_error(msg: &str) -> Terminal {
    if msg.contains("Assert failed!") {
        return Terminal::AssertFailed;
    }
    if let Some(i) = msg.find("!!CRASH!!: Reached unreachable code on line ") {
        let rest = &msg[i + "!!CRASH!!: Reached unreachable code on line ".len()..];
        let n: String = rest.chars().take_while(|c| c.is_ascii_digit()).collect();
        return Terminal::Unreachable(n.parse().unwrap_or(0));
    }
    let class = if msg.contains("attempt to call") {
        "call-non-function"
    } else if msg.contains("attempt to index") {
        "index-non-table"
    } else if msg.contains("attempt to perform arithmetic") {
        "arith-on-non-number"
    } else if msg.contains("attempt to compare") {
        "compare-mismatch"
    } else if msg.contains("attempt to concatenate") {
        "concat-mismatch"
    } else if msg.contains("attempt to get length") {
        "length-of-non-table"
    } else if msg.contains("Accessing fields") {
        "missing-field"
    } else if msg.contains("index out of range") {
        "index-out-of-range"
    } else if msg.contains("are immutable") || msg.contains("Cannot assign to tuple") {
        "immutable-assign"
    } else if msg.contains("!!CRASH!!") {
        "crash-not-implemented"
    } else if msg.contains("bad argument") {
        "bad-argument"
    } else if msg.contains("minilua internal") {
        "minilua-internal"
    } else {
        "other"
    };
    Terminal::LuaError { class: class.to_string(), msg: crate::project::first_line(msg) }
}

pub fn limits(max_steps: u64) -> minilua::Limits {
    let mut l = minilua::Limits::default();
    l.max_steps = max_steps;
    l
}

pub fn load_only(lua: &[u8]) -> Result<minilua::Chunk, (String, String, usize)> {
    minilua::load(lua).map_err(|e| (e.class, e.msg, e.line))
}

pub fn run_lua(lua: &[u8], max_steps: u64) -> LuaOutcome {
    let chunk = match minilua::load(lua) {
        Ok(c) => c,
        Err(e) => return LuaOutcome::LoadError { class: e.class, msg: e.msg, line: e.line },
    };
    run_chunk(&chunk, max_steps)
}

pub fn run_chunk(chunk: &minilua::Chunk, max_steps: u64) -> LuaOutcome {
    let r = minilua::run(chunk, &limits(max_steps));
    let text = String::from_utf8_lossy(&r.stdout).to_string();
    let mut lines: Vec<String> = text.split('\n').map(|s| s.to_string()).collect();
    if lines.last().map(|l| l.is_empty()).unwrap_or(false) {
        lines.pop();
    }
    let terminal = match r.outcome {
        minilua::RunOutcome::Ok => Terminal::Ok,
        minilua::RunOutcome::Error { msg } => classify_lua_error(&msg),
        minilua::RunOutcome::OutOfBudget { what } => Terminal::OutOfBudget(what),
    };
    LuaOutcome::Ran(Trace { lines, terminal })
}
