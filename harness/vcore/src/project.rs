//! Compile driver: an in-memory (or materialised) Sylt project is pushed through the real
//! `sylt_parser::tree` + `sylt_compiler::compile` pipeline of /repo inside `catch_unwind`.
use serde::{Deserialize, Serialize};
use std::cell::RefCell;
use std::collections::BTreeMap;
use std::path::{Path, PathBuf};
use std::sync::Once;
use sylt_common::error::Error;
use sylt_common::FileOrLib;

#[derive(Clone, Debug, Serialize, Deserialize, PartialEq, Eq, Hash)]
pub struct Project {
    /// absolute-looking paths ("/p/main.sy") -> source text
    pub files: BTreeMap<String, String>,
    pub main: String,
    #[serde(default = "yes")]
    pub std: bool,
    #[serde(default)]
    pub require: Option<String>,
}
fn yes() -> bool {
    true
}

impl Project {
    pub fn single(src: impl Into<String>) -> Self {
        let mut files = BTreeMap::new();
        files.insert("/p/main.sy".to_string(), src.into());
        Project { files, main: "/p/main.sy".into(), std: true, require: None }
    }
    pub fn main_src(&self) -> &str {
        self.files.get(&self.main).map(|s| s.as_str()).unwrap_or("")
    }
    pub fn total_len(&self) -> usize {
        self.files.values().map(|s| s.len()).sum()
    }
    /// Write the files below `dir` (paths are re-rooted) and return the re-rooted project.
    pub fn materialize(&self, dir: &Path) -> std::io::Result<Project> {
        let mut files = BTreeMap::new();
        for (p, s) in &self.files {
            let rel = p.trim_start_matches('/');
            let full = dir.join(rel);
            if let Some(parent) = full.parent() {
                std::fs::create_dir_all(parent)?;
            }
            std::fs::write(&full, s)?;
            files.insert(full.to_string_lossy().to_string(), s.clone());
        }
        let main = dir.join(self.main.trim_start_matches('/')).to_string_lossy().to_string();
        Ok(Project { files, main, std: self.std, require: self.require.clone() })
    }
}

#[derive(Clone, Debug, Serialize, Deserialize, PartialEq, Eq)]
pub struct ErrInfo {
    /// "Syntax" | "Compile" | "Type" | "GitConflict" | "FileNotFound" | "IO" | "Other"
    pub kind: String,
    /// for Type errors the name of the TypeError variant (first word of its Debug form)
    pub sub: String,
    pub file: Option<String>,
    pub line: usize,
    pub line_end: usize,
    pub col_start: usize,
    pub col_end: usize,
    pub message: String,
    /// `Display` rendering with colours off (None when rendering panicked)
    pub rendered: Option<String>,
    pub render_panic: Option<String>,
}

#[derive(Clone, Debug, PartialEq, Eq)]
pub enum Outcome {
    Accepted(Vec<u8>),
    Rejected { errors: Vec<ErrInfo>, bytes_written: usize },
    Panicked { message: String, location: String, bytes_written: usize },
}

impl Outcome {
    pub fn is_accepted(&self) -> bool {
        matches!(self, Outcome::Accepted(_))
    }
    pub fn lua(&self) -> Option<&[u8]> {
        match self {
            Outcome::Accepted(b) => Some(b),
            _ => None,
        }
    }
    pub fn errors(&self) -> &[ErrInfo] {
        match self {
            Outcome::Rejected { errors, .. } => errors,
            _ => &[],
        }
    }
    pub fn short(&self) -> String {
        match self {
            Outcome::Accepted(b) => format!("accepted ({} bytes of Lua)", b.len()),
            Outcome::Rejected { errors, .. } if errors.is_empty() => "rejected: 0 error(s)".to_string(),
            Outcome::Rejected { errors, .. } => {
                let e = &errors[0];
                format!(
                    "rejected: {} error(s), first {}:{} at {}:{}: {}",
                    errors.len(),
                    e.kind,
                    e.sub,
                    e.file.clone().unwrap_or_default(),
                    e.line,
                    first_line(&e.message)
                )
            }
            Outcome::Panicked { message, location, .. } => {
                format!("PANIC at {}: {}", location, first_line(message))
            }
        }
    }
}

pub fn first_line(s: &str) -> String {
    let l = s.lines().next().unwrap_or("");
    if l.len() > 200 {
        let mut end = 200;
        while !l.is_char_boundary(end) {
            end -= 1;
        }
        format!("{}…", &l[..end])
    } else {
        l.to_string()
    }
}

thread_local! {
    static LAST_PANIC: RefCell<Option<(String, String)>> = RefCell::new(None);
    static QUIET: RefCell<bool> = RefCell::new(false);
}
static HOOK: Once = Once::new();

/// Install (once) a panic hook that records message+location per thread and stays silent for
/// threads that are inside `guarded`.
pub fn install_panic_hook() {
    HOOK.call_once(|| {
        colored::control::set_override(false);
        let default = std::panic::take_hook();
        std::panic::set_hook(Box::new(move |info| {
            let msg = if let Some(s) = info.payload().downcast_ref::<&str>() {
                s.to_string()
            } else if let Some(s) = info.payload().downcast_ref::<String>() {
                s.clone()
            } else {
                "<non-string panic payload>".to_string()
            };
            let loc = info
                .location()
                .map(|l| format!("{}:{}", l.file(), l.line()))
                .unwrap_or_else(|| "<unknown>".into());
            LAST_PANIC.with(|p| *p.borrow_mut() = Some((msg, loc)));
            let quiet = QUIET.with(|q| *q.borrow());
            if !quiet {
                default(info);
            }
        }));
    });
}

/// Run `f` catching panics; returns Err((message, location)) on panic.
pub fn guarded<T>(f: impl FnOnce() -> T) -> Result<T, (String, String)> {
    install_panic_hook();
    LAST_PANIC.with(|p| *p.borrow_mut() = None);
    let prev = QUIET.with(|q| std::mem::replace(&mut *q.borrow_mut(), true));
    let r = std::panic::catch_unwind(std::panic::AssertUnwindSafe(f));
    QUIET.with(|q| *q.borrow_mut() = prev);
    match r {
        Ok(v) => Ok(v),
        Err(_) => Err(LAST_PANIC
            .with(|p| p.borrow_mut().take())
            .unwrap_or_else(|| ("<panic without hook record>".into(), "<unknown>".into()))),
    }
}

fn strip_repo(loc: &str) -> String {
    loc.trim_start_matches("/repo/").to_string()
}

fn file_name(f: &FileOrLib) -> String {
    match f {
        FileOrLib::File(p) => p.to_string_lossy().to_string(),
        FileOrLib::Lib(l) => format!("<std:{}>", l),
    }
}

pub fn err_info(e: &Error) -> ErrInfo {
    let (kind, sub, file, span, message) = match e {
        Error::SyntaxError { file, span, message } => {
            ("Syntax", String::new(), Some(file_name(file)), Some(*span), message.clone())
        }
        Error::CompileError { file, span, message, .. } => (
            "Compile",
            String::new(),
            Some(file_name(file)),
            Some(*span),
            message.clone().unwrap_or_default(),
        ),
        Error::TypeError { kind, file, span, message, .. } => {
            let dbg = format!("{:?}", kind);
            let sub: String = dbg.chars().take_while(|c| c.is_alphanumeric()).collect();
            (
                "Type",
                sub,
                Some(file_name(file)),
                Some(*span),
                format!("{} {}", kind, message.clone().unwrap_or_default()),
            )
        }
        Error::GitConflictError { file, span } => {
            ("GitConflict", String::new(), Some(file_name(file)), Some(*span), String::new())
        }
        Error::FileNotFound(p) => (
            "FileNotFound",
            String::new(),
            Some(p.to_string_lossy().to_string()),
            None,
            String::new(),
        ),
        Error::IOError(e) => ("IO", String::new(), None, None, e.to_string()),
        other => ("Other", String::new(), None, None, format!("{:?}", other)),
    };
    let (rendered, render_panic) = match guarded(|| format!("{}", e)) {
        Ok(s) => (Some(s), None),
        Err((m, l)) => (None, Some(format!("{} at {}", m, strip_repo(&l)))),
    };
    let sp = span.unwrap_or(sylt_tokenizer::Span::zero(usize::MAX));
    ErrInfo {
        kind: kind.to_string(),
        sub,
        file,
        line: sp.line_start,
        line_end: sp.line_end,
        col_start: sp.col_start,
        col_end: sp.col_end,
        message,
        rendered,
        render_panic,
    }
}

struct CountingWriter {
    buf: Vec<u8>,
}
impl std::io::Write for CountingWriter {
    fn write(&mut self, b: &[u8]) -> std::io::Result<usize> {
        self.buf.extend_from_slice(b);
        Ok(b.len())
    }
    fn flush(&mut self) -> std::io::Result<()> {
        Ok(())
    }
}

/// Compile with files served from the in-memory map (files not in the map are "not found").
pub fn compile(p: &Project) -> Outcome {
    let files = &p.files;
    let reader = |path: &Path| -> Result<String, Error> {
        let key = path.to_string_lossy().to_string();
        match files.get(&key) {
            Some(s) => Ok(s.clone()),
            None => Err(Error::FileNotFound(path.to_path_buf())),
        }
    };
    compile_with(p, reader)
}

/// Compile reading the real file system (project must have been materialised).
pub fn compile_fs(p: &Project) -> Outcome {
    let reader = |path: &Path| -> Result<String, Error> {
        std::fs::read_to_string(path).map_err(|_| Error::FileNotFound(path.to_path_buf()))
    };
    compile_with(p, reader)
}

pub fn compile_with<R>(p: &Project, reader: R) -> Outcome
where
    R: Fn(&Path) -> Result<String, Error>,
{
    let mut w = CountingWriter { buf: Vec::new() };
    let main = PathBuf::from(&p.main);
    let std = p.std;
    let require = p.require.clone();
    let res = guarded(|| -> Result<(), Vec<Error>> {
        let tree = sylt_parser::tree(&main, reader, std)?;
        sylt_compiler::compile(&mut w, tree, require.as_ref())
    });
    match res {
        Ok(Ok(())) => Outcome::Accepted(w.buf),
        Ok(Err(errs)) => Outcome::Rejected {
            errors: errs.iter().map(err_info).collect(),
            bytes_written: w.buf.len(),
        },
        Err((message, location)) => {
            Outcome::Panicked { message, location: strip_repo(&location), bytes_written: w.buf.len() }
        }
    }
}

/// Spawn a thread with a large stack and run `f` on it (parsers/typecheckers recurse).
pub fn on_big_stack<T: Send + 'static>(mb: usize, f: impl FnOnce() -> T + Send + 'static) -> T {
    std::thread::Builder::new()
        .stack_size(mb << 20)
        .spawn(f)
        .expect("spawn")
        .join()
        .expect("worker thread died")
}

/// Run `f` (which may borrow) on a scoped thread with a large stack.
pub fn on_big_stack_scoped<T: Send>(mb: usize, f: impl FnOnce() -> T + Send) -> T {
    std::thread::scope(|s| {
        std::thread::Builder::new()
            .stack_size(mb << 20)
            .spawn_scoped(s, f)
            .expect("spawn")
            .join()
            .expect("worker thread died")
    })
}
