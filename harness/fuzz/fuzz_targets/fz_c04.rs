#![no_main]
// coverage-guided search for property C04: libFuzzer mutates the choice tape, the check's own generator
// decodes it and the check's own oracle judges the case
use libfuzzer_sys::fuzz_target;
fuzz_target!(|data: &[u8]| {
    vcore::fuzz_one(&checks::c04::CHECK, data);
});
